"""C19 — structured operators are never densified: cost stays proportional to the factors.

Every run:
 (a) harness/translators/dump_structural.py (fresh interpreter) regenerates
     lean/ColaVerif/Gen/RuleTable.lean (through dump_rules.py) and
     lean/ColaVerif/Gen/StructuralRules.lean from the live dispatcher and the SOURCE of the rules
     of /repo's working tree (AST classification structural / forwarding / generic, the C19 lattice);
 (b) Lean gate: ColaVerif.Properties.C19 (dispatch level by kernel evaluation on the generated table;
     cost level `allocs ≤ vol·b + leafStorage`; rule level) is rebuilt and its axioms audited;
 (c) runtime tie on LARGE structured operators (n² ≥ 1000 × factor storage; two size classes, see SIZES: `small`, n ≈ 1.2–6.6 k,
     where a tree that densifies is caught cheaply, and `large`, n ≈ 11–145 k, dimensioned so that itemsize × MODEL ≥ 4 × the
     fixed allowance — the majority of the records then tests the model terms `peakMM` / `ruleCost` (cf, ownW), not the
     allowance; an n × n array of a large operator does not fit under the address-space cap MEMORY_CAP and is judged as the
     densification it is): for every public call
     of the statement (A @ X, X @ A, inv/solve, logdet/slogdet, diag, trace, exp, pow/sqrt/isqrt,
     cholesky, plu — algorithm argument OMITTED, Auto(), and a concrete admissible class)
       * peak additional memory (tracemalloc, numpy reports its buffers there) must be
         ≤ itemsize × MODEL + allowance, where MODEL is computed by the LEAN definitions
         (lake env lean --run DriverC19.lean) — no blanket slack:
           A @ X          MODEL = Op.peakMM(tree of A, b)            (the live-set model of Model/Cost.lean; theorem
                                                                      C19_matmat_peak bounds it by lvl·n·b + leafStorage)
           X @ A          MODEL = Op.peakMM(tree of A, b) + 2·n·b     (the transposed / conjugated copies of the operand)
           f(A) [@ V]     MODEL = Op.ruleCost(f, tree of A) + Op.peakMM(tree of the RESULT operator, b)
                                                                      (theorem C19_rule_cost bounds ruleCost by
                                                                       7·Σ factor sizes + 3·linSize; the result operator's
                                                                       tree is read off the real object)
         and, independently of every model, must stay below a quarter of the dense n × n matrix;
       * the arrays the RESULT operator holds (beyond those of A) must fit into Op.ruleCost;
       * every `to_dense()` / `Dense(...)` during the call is logged (monkeypatch in this process):
         an array with ≥ n²/4 entries is directly a failing input;
       * every rule of the family entered ON THE OPERATOR ITSELF is logged and compared with the
         model: the resolver mirror must select that rule, a structural rule must end the chain, a
         forwarding rule must be followed by one of the calls read off its AST;
       * the Lean model's total `Σ allocs` must cover the measured peak of A @ X (the model lists
         every allocation), `rows`/`leafStorage` must equal the real operator's, and the rule
         skeleton `dens` must cover the logged densifications.
     Wall time is reported, never judged.
 (d) evidence.

ROBUSTNESS (round 2).  A changed /repo never makes this check crash: a translator that cannot regenerate the tables, a Lean gate
that fails, a driver that no longer builds or runs, a rule chain outside the regenerated tables are all recorded as "the
property is no longer shown to hold"; the measured stream still runs (with the Python mirror of rows / cols / leaf storage when
the driver is gone), the lattice cases on which the dispatch theorems fail (translator: expected, not reached) are turned into
concrete public calls with several VALUES per argument class (`directed_search`: pow(K, -2), pow(K, 10), inv(B, LU()), …),
and the outcome is either VIOLATION with a replayable call that densifies or `VIOLATION … no-failing-input-found` naming the
theorems that no longer check (`failing_theorems`).
"""
import gc
import importlib
import json
import os
import random
import sys
import time
import tracemalloc
import zlib

import common

MODULE = "ColaVerif.Properties.C19"
TRANSLATOR = os.path.join(common.ROOT, "harness", "translators", "dump_structural.py")
SLACK = 8                 # ONLY for calls whose result operator has a class outside the shape language (counted in the evidence)
PY_ALLOWANCE = 64 * 1024  # bytes: Python objects (dispatch caches, parametric classes) traced alongside
NUMPY_BUFFERS = 192 * 1024  # bytes: ufunc iteration buffers (8192 elements each) that numpy allocates internally
BS = (1, 3, 16)           # numbers of columns of the operand
MAX_REPORTS = 6           # failing inputs reported before the stream stops
RATIO_MIN = 1000          # statement: n² ≥ 1000 × factor storage

# Defects of /repo found by this check and not yet decided (see docs/BUILDER_NOTES.md): none for C19.
PROVISIONAL_KNOWN = {}
CALL_TIME_LIMIT_S = 90    # seconds per measured call (see time_guard)
MEMORY_CAP = 3 << 30      # bytes of address space above the current size while the measured stream runs: a dense n × n array of a
                          # LARGE zoo operator (>= 3.2 GB) then fails with MemoryError at once — and is judged as the densification it is


# ------------------------------------------------------------------------------------------
# operator expressions (own tiny language: payloads are random, only the structure matters)
#   ("dense", m, flavour)   flavour: "gen" well conditioned | "psd" cola.PSD(G Gᵀ/m + I) | "sym" cola.SelfAdjoint
#   ("diag", n) positive | ("eye", n) | ("scalar", c, n)
#   ("tri", m) lower Triangular | ("sparse", m) Sparse (diagonal + one off-diagonal band, 2m entries) | ("tridiag", n)
#   ("perm", n) Permutation | ("house", n) Householder
#   ("kron", e…) | ("kronsum", e…) | ("bdiag", [e…], [mult…]) | ("sum", e…) | ("prod", e…) | ("smul", c, e)
# ------------------------------------------------------------------------------------------
def size_of(e):
    t = e[0]
    if t == "dense":
        return e[1]
    if t in ("diag", "eye", "tri", "sparse", "tridiag", "perm", "house"):
        return e[1]
    if t == "scalar":
        return e[2]
    if t in ("kron", "kronsum"):
        p = 1
        for x in e[1:]:
            p *= size_of(x)
        return p
    if t == "bdiag":
        return sum(size_of(x) * m for x, m in zip(e[1], e[2]))
    if t in ("sum", "prod"):
        return size_of(e[1])
    if t == "smul":
        return size_of(e[2])
    raise ValueError(t)


def leaf_storage(e):
    t = e[0]
    if t in ("dense", "tri"):
        return e[1] * e[1]
    if t == "sparse":
        return 2 * e[1]          # stored entries
    if t == "house":
        return e[1]              # the vector
    if t in ("diag", "eye", "scalar", "tridiag", "perm"):
        return 0
    if t == "bdiag":
        return sum(leaf_storage(x) for x in e[1])
    if t == "smul":
        return leaf_storage(e[2])
    return sum(leaf_storage(x) for x in e[1:])


def factor_storage(e):
    """what the operator stores: dense leaves and diagonal vectors"""
    t = e[0]
    if t in ("dense", "tri"):
        return e[1] * e[1]
    if t in ("diag", "perm", "house"):
        return e[1]
    if t == "tridiag":
        return 3 * e[1]
    if t == "sparse":
        return 6 * e[1]          # data, row and column indices of 2m entries
    if t in ("eye", "scalar"):
        return 1
    if t == "bdiag":
        return sum(factor_storage(x) for x in e[1])
    if t == "smul":
        return 1 + factor_storage(e[2])
    return sum(factor_storage(x) for x in e[1:])


def shape_tree(e):
    """the same structure in the shape language of lean/DriverC19.lean"""
    t = e[0]
    if t == "dense":
        d = ["dense", e[1], e[1]]
        return ["ann", d] if e[2] in ("psd", "sym") else d
    if t == "diag":
        return ["diag", e[1]]
    if t == "tri":
        return ["tri", e[1], e[1]]
    if t == "sparse":
        return ["sparse", e[1], e[1], sparse_coords(e[1])]
    if t in ("tridiag", "perm", "house"):
        return [t, e[1]]
    if t == "eye":
        return ["eye", e[1]]
    if t == "scalar":
        return ["scalar", e[2]]
    if t == "bdiag":
        return ["bdiag", [shape_tree(x) for x in e[1]], list(e[2])]
    if t == "smul":   # cola.fns.mul: Product(ScalarMul, A)
        return ["prod", ["scalar", size_of(e[2])], shape_tree(e[2])]
    return [t] + [shape_tree(x) for x in e[1:]]


def sparse_coords(m):
    """the pattern of the Sparse leaves: the diagonal and the cyclic super-diagonal"""
    return [[i, i] for i in range(m)] + [[i, (i + 1) % m] for i in range(m)]


def show(e):
    t = e[0]
    if t == "dense":
        return f"D{e[1]}" + {"gen": "", "psd": "ᵖ", "sym": "ˢ"}[e[2]]
    if t in ("tri", "sparse", "tridiag", "perm", "house"):
        return {"tri": "Tri", "sparse": "Sp", "tridiag": "Tridiag", "perm": "Perm", "house": "House"}[t] + str(e[1])
    if t == "diag":
        return f"Diag{e[1]}"
    if t == "eye":
        return f"I{e[1]}"
    if t == "scalar":
        return f"{e[1]}·I{e[2]}"
    if t == "bdiag":
        return "BlockDiag(" + ", ".join(f"{show(x)}×{m}" for x, m in zip(e[1], e[2])) + ")"
    if t == "smul":
        return f"{e[1]}*{show(e[2])}"
    op = {"kron": " ⊗ ", "kronsum": " ⊕ ", "sum": " + ", "prod": " @ "}[t]
    return "(" + op.join(show(x) for x in e[1:]) + ")"


def skeleton(e):
    """structure without sizes (for `distinct` counting)"""
    t = e[0]
    if t == "dense":
        return "D" + e[2]
    if t in ("diag", "eye", "scalar", "tri", "sparse", "tridiag", "perm", "house"):
        return t
    if t == "bdiag":
        return "bdiag(" + ",".join(skeleton(x) for x in e[1]) + ")"
    if t == "smul":
        return "smul(" + skeleton(e[2]) + ")"
    return t + "(" + ",".join(skeleton(x) for x in e[1:]) + ")"


class Builder:
    def __init__(self, seed):
        self.seed = seed

    def build(self, e, path="r"):
        import numpy as np
        import cola
        from cola.ops import (BlockDiag, Dense, Diagonal, Householder, Identity, Kronecker, KronSum, Permutation, ScalarMul, Sparse,
                              Triangular, Tridiagonal)
        t = e[0]
        rng = np.random.default_rng([self.seed, zlib.crc32(path.encode())])
        if t == "dense":
            m = e[1]
            G = rng.standard_normal((m, m)) / np.sqrt(m)
            if e[2] == "psd":
                return cola.PSD(Dense(G @ G.T + np.eye(m)))
            if e[2] == "sym":
                return cola.SelfAdjoint(Dense((G + G.T) / 2))
            return Dense(G + 2.0 * np.eye(m))
        if t == "diag":
            return Diagonal(1.0 + rng.random(e[1]))
        if t == "tri":
            m = e[1]
            return Triangular(np.tril(rng.standard_normal((m, m)) / np.sqrt(m)) + 2.0 * np.eye(m), lower=True)
        if t == "sparse":
            m = e[1]
            co = np.array(sparse_coords(m), dtype=np.int64)
            data = np.concatenate([2.0 + rng.random(m), 0.3 * rng.standard_normal(m)])
            return Sparse(data, co[:, 0].copy(), co[:, 1].copy(), (m, m))
        if t == "tridiag":
            n = e[1]
            return Tridiagonal(0.3 * rng.standard_normal(n - 1), 2.0 + rng.random(n), 0.3 * rng.standard_normal(n - 1))
        if t == "perm":
            return Permutation(rng.permutation(e[1]).astype(np.int64), np.float64)
        if t == "house":
            v = rng.standard_normal((e[1], 1))
            return Householder(v / np.linalg.norm(v), beta=2.0)
        if t == "eye":
            return Identity((e[1], e[1]), np.float64)
        if t == "scalar":
            return ScalarMul(float(e[1]), (e[2], e[2]), dtype=np.float64)
        if t == "kron":
            return Kronecker(*[self.build(x, f"{path}.{i}") for i, x in enumerate(e[1:])])
        if t == "kronsum":
            return KronSum(*[self.build(x, f"{path}.{i}") for i, x in enumerate(e[1:])])
        if t == "bdiag":
            return BlockDiag(*[self.build(x, f"{path}.{i}") for i, x in enumerate(e[1])], multiplicities=list(e[2]))
        if t == "sum":
            ms = [self.build(x, f"{path}.{i}") for i, x in enumerate(e[1:])]
            out = ms[0]
            for M in ms[1:]:
                out = out + M
            return out
        if t == "prod":
            ms = [self.build(x, f"{path}.{i}") for i, x in enumerate(e[1:])]
            out = ms[0]
            for M in ms[1:]:
                out = out @ M
            return out
        if t == "smul":
            return float(e[1]) * self.build(e[2], path + ".s")
        raise ValueError(t)


def tiny(e, n=None):
    """the same structure with dense sizes 2 and multiplicities 2 (warm-up: same classes, hence
    the same dispatch cache keys); `n` forces the size of a parametrised leaf"""
    t = e[0]
    if t == "dense":
        return ("dense", 2, e[2])
    if t in ("diag", "eye", "tridiag", "perm", "house"):
        return (t, n or 2)
    if t in ("tri", "sparse"):
        return (t, 2)
    if t == "scalar":
        return ("scalar", e[1], n or 2)
    if t == "bdiag":
        return ("bdiag", [tiny(x) for x in e[1]], [2 for _ in e[2]])
    if t == "smul":
        return ("smul", e[1], tiny(e[2], n))
    if t in ("sum", "prod"):
        comp = [tiny(x) for x in e[1:] if x[0] not in ("diag", "eye", "scalar", "tridiag", "perm", "house")]
        target = size_of(comp[0]) if comp else (n or 2)
        return (t, ) + tuple(tiny(x, target) for x in e[1:])
    return (t, ) + tuple(tiny(x) for x in e[1:])


# ------------------------------------------------------------------------------------------
# the zoo
# ------------------------------------------------------------------------------------------
# Size classes of the zoo (inclusive ranges the sizes are drawn from).  "small": the sizes of rounds 1-2 (a dense n × n array
# still fits into memory, so a tree that densifies is caught cheaply and first).  "large" (round 3): factor sizes such that
# itemsize × MODEL >= 4 × the fixed allowance (MODEL >= 131072 entries) for almost every call — there the comparison is about
# the Lean model (`peakMM`, `ruleCost` with its constants `cf` / `ownW`), not about the allowance — while n² >= 1000 × factor
# storage still holds (checked for every entry).
SIZES = {
    "small": {"k2": (46, 50), "k3": (11, 13), "k4": (5, 7), "kd": (46, 50), "eyeK": ((38, 42), (54, 58)),
              "bd": ((36, 42), (20, 26), (28, 32), (40, 48)), "s2": (56, 60), "bd2": ((36, 40), (40, 44), (20, 24), (60, 66)),
              "mixq": ((20, 26), (28, 34)), "mixm": ((24, 28), (20, 24), (16, 20), (20, 24), (16, 20)),
              "k2b": (78, 82), "k2c": (64, 68), "s2p": (56, 60), "line": (3100, 3500), "perm": (3100, 3500), "house": (3100, 3500),
              "sparse": (6200, 6600), "plain": (2500, 3500)},
    "large": {"k2": (222, 230), "k3": (32, 34), "k4": (14, 15), "kd": (222, 230), "eyeK": ((180, 190), (250, 260)),
              "bd": ((120, 130), (70, 80), (120, 128), (200, 220)), "s2": (222, 230), "bd2": ((120, 130), (125, 135), (70, 80), (210, 230)),
              "mixq": ((70, 80), (90, 100)), "mixm": ((80, 90), (80, 90), (70, 80), (80, 90), (70, 80)),
              # (operators with a TOP-LEVEL Permutation leaf stay moderate and no standalone Sparse is drawn ("sparse": None):
              #  `Op.wf` checks `Nodup` of the permutation / of the coordinate list, quadratic in the interpreted Lean driver)
              "k2b": (105, 110), "k2c": (105, 110), "s2p": (105, 110), "line": (20000, 22000), "perm": (11000, 12000),
              "house": (40000, 42000), "sparse": None, "plain": (135000, 145000)},
}
MODEL_DOMINATED = 4       # a record is "model dominated" when itemsize × MODEL >= 4 × allowance


def zoo(ctx, rnd=0, scale="small"):
    """list of dict(expr, calls) — sizes drawn from random.Random(seed); every operator has
    n² ≥ 1000 × factor storage (checked)"""
    rng = random.Random(ctx.seed * 7919 + 19 + 104729 * rnd + (0 if scale == "small" else 15485863))
    big = ctx.thorough and scale == "small"      # the fixed power-of-two sizes of the thorough tier
    sz = SIZES[scale]
    Z = []

    def d(m, fl="gen"):
        return ("dense", m, fl)

    def add(e, *flags):
        Z.append({"expr": e, "flags": set(flags), "scale": scale})

    def r(a, b=None):
        a, b = a if b is None else (a, b)
        return rng.randint(a, b)

    # Kronecker, 2–4 factors (general and PSD factors)
    m2 = [(r(sz["k2"]), r(sz["k2"]))] + ([(64, 64)] if big else [])
    for a, b in m2:
        add(("kron", d(a), d(b)), "mm", "inv", "diag", "plu")
        add(("kron", d(a, "psd"), d(b, "psd")), "mm", "rmm", "inv", "psd", "diag", "pow", "chol", "plu")
    m3 = [(r(sz["k3"]), r(sz["k3"]), r(sz["k3"]))] + ([(16, 16, 16)] if big else [])
    for a, b, c in m3:
        add(("kron", d(a), d(b), d(c)), "mm", "inv", "diag", "plu")
        add(("kron", d(a, "psd"), d(b, "psd"), d(c, "psd")), "mm", "rmm", "inv", "psd", "diag", "pow", "chol")
    m4 = [(r(sz["k4"]), r(sz["k4"]), r(sz["k4"]), r(sz["k4"]))] + ([(8, 8, 8, 8)] if big else [])
    for a, b, c, e4 in m4:
        add(("kron", d(a), d(b, "psd"), d(c), d(e4, "psd")), "mm", "inv", "diag", "plu")
        if big:
            add(("kron", d(a, "psd"), d(b, "psd"), d(c, "psd"), d(e4, "psd")), "mm", "rmm", "inv", "psd", "diag", "pow", "chol")
    # Kronecker with Diagonal / Identity factors
    a = r(sz["kd"])
    add(("kron", d(a), ("diag", r(sz["kd"]))), "mm", "inv", "diag")
    add(("kron", ("eye", r(sz["eyeK"][0])), d(r(sz["eyeK"][1]), "psd")), "mm", "inv", "diag", "chol")
    # KronSum
    a, b = (r(sz["k2"]), r(sz["k2"]))
    add(("kronsum", d(a), d(b)), "mm", "diag", "exp")
    add(("kronsum", d(a, "sym"), d(b, "sym")), "mm", "diag", "exp", "sym")
    a, b, c = r(sz["k3"]), r(sz["k3"]), r(sz["k3"])
    add(("kronsum", d(a), d(b), d(c)), "mm", "diag", "exp")
    if big:
        add(("kronsum", d(64), d(64)), "mm", "diag", "exp")
        add(("kronsum", d(8), d(8), d(8), d(8)), "mm", "diag", "exp")
    # BlockDiag with multiplicities
    a, b = r(sz["bd"][0]), r(sz["bd"][1])
    add(("bdiag", [d(a), d(b)], [r(sz["bd"][2]), r(sz["bd"][3])]), "mm", "inv", "diag", "plu")
    add(("bdiag", [d(a, "psd"), d(b, "psd")], [r(sz["bd"][2]), r(sz["bd"][3])]), "mm", "inv", "psd", "diag", "unary", "chol")
    if big:
        add(("bdiag", [d(32, "psd"), d(16, "psd"), ("diag", 64)], [64, 120, 2]), "mm", "inv", "psd", "diag", "unary", "chol")
    # sums with Diagonal / ScalarMul / Identity (a Diagonal member stores n numbers: larger factors)
    a, b = r(sz["s2"]), r(sz["s2"])
    add(("sum", ("kron", d(a), d(b)), ("diag", a * b)), "mm", "diag")
    add(("sum", ("kronsum", d(a), d(b)), ("scalar", 0.5, a * b), ("eye", a * b)), "mm", "diag")
    m1, q1, m2_, q2 = r(sz["bd2"][0]), r(sz["bd2"][1]), r(sz["bd2"][2]), r(sz["bd2"][3])
    add(("sum", ("bdiag", [d(m1), d(m2_)], [q1, q2]), ("diag", m1 * q1 + m2_ * q2)), "mm", "diag")
    # products with Diagonal / ScalarMul / Identity, and of two Kronecker products
    a, b = r(sz["s2"]), r(sz["s2"])
    add(("prod", ("diag", a * b), ("kron", d(a), d(b))), "mm", "inv")
    # inv / solve of a Product that contains a ScalarMul (c * A, D @ D @ cI): scheduled since /repo 9078f51 repaired the device
    # of inv(ScalarMul) (before, these calls raised "There is a device mismatch in Product" on the NumPy backend)
    # flagged "psd": the product c * K inherits PSD from K, so an explicit Cholesky() is an admitted call form for it too, and the
    # structural Product rule has to be taken although the ScalarMul factor itself carries no annotation (seeded change c19_m4)
    add(("smul", 2.5, ("kron", d(a, "psd"), d(b, "psd"))), "mm", "inv", "psd")
    add(("smul", 3.0, ("bdiag", [d(a, "psd"), d(b, "psd")], [r(sz["bd"][2]), r(sz["bd"][3])])), "mm", "inv", "psd")
    k3 = (r(sz["k3"]), r(sz["k3"]), r(sz["k3"]))
    add(("prod", ("kron", d(k3[0]), d(k3[1]), d(k3[2])), ("kron", d(k3[0]), d(k3[1]), d(k3[2]))), "mm", "inv")
    add(("prod", ("bdiag", [d(m1), d(m2_)], [q1, q2]), ("diag", m1 * q1 + m2_ * q2)), "mm", "inv")
    add(("prod", ("diag", a * b), ("diag", a * b), ("scalar", 3.0, a * b)), "mm", "inv")
    add(("prod", ("diag", a * b), ("diag", a * b)), "mm", "rmm", "inv")
    # round 2: the leaf kinds whose cost model was proved about but never compared with running code — Triangular, Sparse,
    # Tridiagonal, Permutation, Householder — as Kronecker factors, as blocks, in sums / products, and on their own
    a, b = r(sz["k2"]), r(sz["k2"])
    add(("kron", ("tri", a), d(b)), "mm", "inv")
    add(("kron", ("perm", a), d(b, "psd")), "mm", "inv")
    add(("kron", ("tridiag", a), d(b)), "mm")
    add(("kron", ("sparse", a), d(b), ("house", 3)) if big else ("kron", ("sparse", a), d(b)), "mm")
    add(("kron", ("house", a), ("tri", b)), "mm")
    q = [r(sz["mixq"][0]), r(sz["mixq"][0]), r(sz["mixq"][1]), r(sz["mixq"][0]), r(sz["mixq"][0])]
    add(("bdiag", [("tri", q[0]), ("tridiag", q[1]), ("perm", q[2]), ("sparse", q[3]), ("house", q[4])],
         [r(x) for x in sz["mixm"]]), "mm")
    a, b = r(sz["k2b"]), r(sz["k2b"])
    add(("sum", ("kron", d(a), d(b)), ("tridiag", a * b), ("perm", a * b)), "mm")
    a, b = r(sz["k2c"]), r(sz["k2c"])
    add(("prod", ("perm", a * b), ("kron", ("tri", a), d(b)), ("house", a * b)), "mm")
    a, b = r(sz["s2p"]), r(sz["s2p"])
    add(("prod", ("perm", a * b), ("kron", ("tri", a), d(b))), "mm", "inv")
    add(("tridiag", 4096 if big else r(sz["line"])), "mm")
    add(("perm", 4096 if big else r(sz["perm"])), "mm")
    add(("house", 4096 if big else r(sz["house"])), "mm")
    if sz["sparse"] is not None:
        add(("sparse", 8192 if big else r(sz["sparse"])), "mm")     # stores 6 numbers per row: n ≥ 6000 for n² ≥ 1000 × storage
    # the plain parametrised kinds
    nn = 4096 if big else r(sz["plain"])
    add(("diag", nn), "mm", "rmm", "inv", "diag", "unary", "chol", "plu")
    add(("eye", nn), "mm", "rmm", "inv", "diag", "unary", "chol", "plu")
    add(("scalar", 1.5, nn), "mm", "inv", "diag", "unary", "chol", "plu")
    for z in Z:
        if "inv" in z["flags"]:
            z["flags"].add("logdet")
        e = z["expr"]
        n, fs = size_of(e), factor_storage(e)
        z["n"], z["factor_storage"], z["ratio"] = n, fs, n * n / max(fs, 1)
        if z["ratio"] < RATIO_MIN:
            raise RuntimeError(f"zoo entry {show(e)}: n² / factor storage = {z['ratio']:.0f} < {RATIO_MIN}")
    Z.sort(key=lambda z: z["n"])   # small dimensions first: a densifying tree is then caught cheaply
    return Z


# ------------------------------------------------------------------------------------------
# public calls
# ------------------------------------------------------------------------------------------
def call_table():
    """name -> dict(flag, fn (skeleton function of the Lean rule level, None for A @ X / X @ A),
    build(A, alg, V) -> the operator (or tuple, or array / scalar) the public call returns,
    pick(result) -> the operator of the result that is applied afterwards (None: nothing is applied),
    b = columns of the operand the picked operator is applied to, algs: list of (presence label, factory|None)).
    The measured thunk is `build` followed by `pick(result) @ V[:, :b]`; `solve` applies inside cola."""
    import numpy as np  # noqa: F401
    import cola
    L = cola.linalg
    dec = sys.modules["cola.linalg.decompositions.decompositions"]
    Auto, LU, Chol = L.Auto, L.LU, L.Cholesky
    Exact = L.Exact
    Eig, Eigh = L.Eig, L.Eigh

    def alg_args(alg):
        return () if alg is None else (alg, )

    T = {}
    ident = lambda r: r  # noqa: E731
    nothing = lambda r: None  # noqa: E731

    def reg(name, flag, fn, build, b, algs, pick=ident, vec=True, shadow=None):
        T[name] = {"flag": flag, "fn": fn, "build": build, "pick": pick, "b": b, "algs": algs, "vec": vec, "shadow": shadow}

    none = [("n/a", None)]
    inv_algs = lambda z: [("omitted", None), ("Auto", Auto), ("LU", LU)] + ([("Cholesky", Chol)] if "psd" in z["flags"] else [])  # noqa: E731
    tr_algs = lambda z: [("omitted", None), ("Auto", Auto), ("Exact", Exact)]  # noqa: E731
    un_algs = lambda z: [("omitted", None), ("Auto", Auto), ("Eigh", Eigh) if ("psd" in z["flags"] or "sym" in z["flags"]) else ("Eig", Eig)]  # noqa: E731
    for b in BS:
        # b = 16: the operand (n·b·8 B ≈ 0.3–0.8 MB) dominates the fixed allowance, so the live-set model is really compared
        reg(f"A @ X (b={b})", "mm", None, lambda A, alg, V: A, b, lambda z: none, vec=False)
        if b <= 3:
            reg(f"X @ A (b={b})", "rmm", None, lambda A, alg, V: A, b, lambda z: none, vec=False)
    reg("A @ x (vector)", "mm", None, lambda A, alg, V: A, 1, lambda z: none)
    reg("inv(A) @ V", "inv", "inv", lambda A, alg, V: L.inv(A, *alg_args(alg)), 3, inv_algs, vec=False)
    # solve applies inv(A) inside cola: the tree of the result operator is read off a second, unmeasured inv(A, alg)
    reg("solve(A, v)", "inv", "inv", lambda A, alg, V: L.solve(A, V[:, 0], *alg_args(alg)), 1, inv_algs, pick=nothing,
        shadow=lambda A, alg: L.inv(A, *alg_args(alg)))
    reg("logdet(A)", "logdet", "slogdet", lambda A, alg, V: L.logdet(A, *alg_args(alg)), 1, inv_algs, pick=nothing)
    reg("slogdet(A)", "logdet", "slogdet", lambda A, alg, V: L.slogdet(A, *alg_args(alg))[1], 1, inv_algs, pick=nothing)
    reg("diag(A, 0)", "diag", "diag", lambda A, alg, V: L.diag(A, 0, *alg_args(alg)), 1, tr_algs, pick=nothing)
    reg("trace(A)", "diag", "trace", lambda A, alg, V: L.trace(A, *alg_args(alg)), 1, tr_algs, pick=nothing)
    reg("exp(A) @ v", "exp", "exp", lambda A, alg, V: L.exp(A, *alg_args(alg)), 1, un_algs)
    reg("pow(A, 0.5) @ V", "pow", "pow", lambda A, alg, V: L.pow(A, 0.5, *alg_args(alg)), 3, un_algs, vec=False)
    reg("sqrt(A) @ v", "pow", "pow", lambda A, alg, V: L.sqrt(A, *alg_args(alg)), 1, un_algs)
    reg("isqrt(A) @ v", "pow", "pow", lambda A, alg, V: L.isqrt(A, *alg_args(alg)), 1, un_algs)
    # integer exponents: 0 → I, 1..9 → lazy Product, −1 → inv, anything else → apply_unary(x ↦ x**k) — all of them have to
    # be taken factor by factor on a Kronecker product (the exponent CLASS int is a lattice element of its own)
    for k in (2, -1, -2, 10):
        reg(f"pow(A, {k}) @ v", "pow", "pow", lambda A, alg, V, k=k: L.pow(A, k, *alg_args(alg)), 1, un_algs)
    # kinds with an apply_unary rule (BlockDiag, Diagonal, Identity, ScalarMul): exp / log / sqrt go through it
    reg("exp(A) @ v [apply_unary]", "unary", "exp", lambda A, alg, V: L.exp(A, *alg_args(alg)), 1, un_algs)
    reg("log(A) @ v [apply_unary]", "unary", "unary", lambda A, alg, V: L.log(A, *alg_args(alg)), 1, un_algs)
    reg("sqrt(A) @ v [apply_unary]", "unary", "pow", lambda A, alg, V: L.sqrt(A, *alg_args(alg)), 1, un_algs)
    reg("cholesky(A) @ v", "chol", "chol", lambda A, alg, V: dec.cholesky(A), 1, lambda z: none)
    reg("plu(A): L @ v", "plu", "plu", lambda A, alg, V: dec.plu(A), 1, lambda z: none, pick=lambda r: r[1])
    return T


def make_thunk(call, cname, A, alg, V, hold):
    """the measured public call; `hold` receives the operator that was applied (for its shape tree)"""
    b = call["b"]

    def thunk():
        if cname.startswith("X @ A"):
            return V[:, :b].T @ A
        res = call["build"](A, alg, V)
        op = call["pick"](res)
        hold["op"] = op
        if op is None:
            return res
        return op @ (V[:, 0] if call["vec"] else V[:, :b])
    return thunk


# ------------------------------------------------------------------------------------------
# instrumentation
# ------------------------------------------------------------------------------------------
class Probe:
    """densification log + rule-entry log (monkeypatches in THIS process only)"""

    def __init__(self, T, m, fam):
        from cola.ops import Dense, LinearOperator
        self.T, self.m, self.fam = T, m, fam
        self.dens_log = []
        self.rule_log = []
        self.top = None
        self.active = False
        D = sys.modules["dump_rules"]
        # -- to_dense of every class that defines one, and Dense.__init__
        self._orig = []
        classes = [LinearOperator] + D.all_subclasses(LinearOperator)
        probe = self
        for c in classes:
            if "to_dense" in vars(c):
                orig = vars(c)["to_dense"]

                def patched(self_, _orig=orig, _c=c):
                    if probe.active:
                        probe.dens_log.append((f"{type(self_).__name__.split('[')[0]}.to_dense", tuple(int(x) for x in self_.shape)))
                    return _orig(self_)
                self._orig.append((c, "to_dense", orig))
                setattr(c, "to_dense", patched)
        orig_init = Dense.__init__

        def dense_init(self_, A, _orig=orig_init):
            if probe.active and hasattr(A, "shape"):
                probe.dens_log.append(("Dense(array)", tuple(int(x) for x in A.shape)))
            return _orig(self_, A)
        self._orig.append((Dense, "__init__", orig_init))
        Dense.__init__ = dense_init
        # -- every registered implementation of the family functions
        self._impls = []
        for name, ent in fam.items():
            f = ent["fn"]["function"]
            for i, s in enumerate(ent["fn"]["live"]):
                impl = s.implementation

                def logged(*args, _impl=impl, _name=name, _i=i, _pos=ent["opPos"], **kw):
                    if probe.active and len(args) > _pos and args[_pos] is probe.top:
                        probe.rule_log.append((_name, _i, args))
                    return _impl(*args, **kw)
                logged.__name__ = getattr(impl, "__name__", name)
                self._impls.append((s, impl))
                s.implementation = logged
            f._cache.clear()

    def restore(self):
        for c, attr, orig in self._orig:
            setattr(c, attr, orig)
        for s, impl in self._impls:
            s.implementation = impl
        for ent in self.fam.values():
            ent["fn"]["function"]._cache.clear()

    def begin(self, top):
        self.dens_log, self.rule_log, self.top, self.active = [], [], top, True

    def end(self):
        self.active = False
        self.top = None


def class_id(m, v):
    """class id of a runtime value; other parametrisations of a @parametric kind are mapped to the
    representative one of the class table (they have the same superclasses among the hints)"""
    c = type(v)
    if c in m.cid:
        return m.cid[c]
    for k in m.kinds:
        if k["parametric"] and isinstance(v, k["hint"]):
            return m.cid[k["cls"]]
    for base in c.__mro__[1:]:
        if base in m.cid:
            return m.cid[base]
    return None


def chain_check(T, m, S, fam, rule_log):
    """the rules entered on the operator itself vs the model: -> (list of problems, chain text)"""
    D = sys.modules["dump_rules"]
    import plum
    problems, text = [], []
    for k, (name, i, args) in enumerate(rule_log):
        ent = fam[name]
        fn = ent["fn"]
        ids = []
        for v in args:
            ci = class_id(m, v)
            if ci is None:
                problems.append(f"{name}: argument class {type(v)} outside the class table")
                return problems, text
            ids.append(ci)
        bits = 0
        for c in fn["conds"]:
            s = fn["live"][c["sig"]]
            ok = len(s.types) == len(args) and all(plum._is_bearable(v, t) for v, t in zip(args, s.types))
            if ok and s.condition(*args):
                bits |= 1 << fn["sigs"][c["sig"]]["cond"]
        mir = D.mirror_resolve(m, fn, ids, bits)
        rule = ent["rules"][i]
        text.append(f"{name}#{i} [{rule.cls}] @ {rule.file}:{rule.line}")
        if mir != ("U", i):
            problems.append(f"{name}{tuple(ids)}|{bits}: the live dispatcher entered rule {i}, the resolver model says {mir}")
        last = k == len(rule_log) - 1
        if rule.cls == "structural":
            if not last:
                problems.append(f"{name}#{i} is classified structural but the operator itself was passed on to {rule_log[k + 1][0]}")
        elif rule.cls == "forwarder":
            if last:
                continue  # a branch that does not forward (pow with integer exponent, …) — memory decides
            nname, _ni, nargs = rule_log[k + 1]
            nids = [class_id(m, v) for v in nargs]
            fws = [fw for fw in ent["fwds"] if fw["sig"] == i and fw["target"] == nname]
            tups = []
            for fw in fws:
                tups += T.fwd_tups(ids, fw) or []
            if not fws or (tups and nids not in tups):
                problems.append(f"{name}#{i} forwards to {nname}{tuple(nids)}; the AST analysis predicts "
                                f"{[(fw['target'], T.fwd_tups(ids, fw)) for fw in ent['fwds'] if fw['sig'] == i]}")
        else:
            problems.append(f"generic rule {name}#{i} @ {rule.file}:{rule.line} entered on the structured operator")
    return problems, text


class CallTimeout(Exception):
    pass


class time_guard:
    """a measured call that runs longer than `limit` seconds is interrupted (SIGALRM): on the unchanged tree every call of the
    stream takes well under a second; a structured operator of the large size class that falls into a generic ITERATIVE rule
    (Lanczos / Arnoldi on n ≈ 50 k) would otherwise run for hours.  Recorded as an error of the call (never as 'ok')."""

    def __init__(self, limit):
        self.limit = limit

    def __enter__(self):
        import signal
        self.ok = False
        try:
            def on_alarm(signum, frame):
                raise CallTimeout(f"the call did not return within {self.limit} s")
            self.old = signal.signal(signal.SIGALRM, on_alarm)
            signal.alarm(self.limit)
            self.ok = True
        except Exception:  # noqa: BLE001  (not the main thread)
            pass
        return self

    def __exit__(self, *exc):
        if self.ok:
            import signal
            signal.alarm(0)
            signal.signal(signal.SIGALRM, self.old)
        return False


def measure(probe, thunk, top):
    probe.begin(top)
    tracemalloc.reset_peak()
    c0, _ = tracemalloc.get_traced_memory()
    t0 = time.perf_counter()
    err = None
    out = None
    try:
        with time_guard(CALL_TIME_LIMIT_S):
            out = thunk()
    except Exception as ex:  # noqa: BLE001
        err = f"{type(ex).__name__}: {str(ex)[:200]}"
    wall = time.perf_counter() - t0
    _c1, peak = tracemalloc.get_traced_memory()
    probe.end()
    return {"peak": max(peak - c0, 0), "wall": wall, "err": err, "out": out,
            "dens": list(probe.dens_log), "rules": list(probe.rule_log)}


def real_leaf_storage(A):
    """Σ of what the leaves of the REAL operator store, in the units of Op.leafStorage: dense sizes of Dense / Triangular
    leaves, stored entries of Sparse leaves, the vector of a Householder reflector"""
    from cola.ops import Dense, Householder, Sparse
    if isinstance(A, Dense):
        return int(A.A.size)
    if isinstance(A, Sparse):
        return int(A.data.size)
    if isinstance(A, Householder):
        return int(A.vec.size)
    tot = 0
    for M in getattr(A, "Ms", ()):
        tot += real_leaf_storage(M)
    return tot


def real_shape(op, depth=0):
    """the shape tree (language of lean/DriverC19.lean) of a REAL cola operator, or None when a class outside the language
    occurs.  Used for the RESULT operators of the rule families (inverse / function / factor of a structured operator).
    TriangularInv (a triangular solve: one result array, plus LAPACK's copy of the right-hand side) is given the cost class
    of a Triangular product; Transpose / Adjoint of a leaf the cost class of a one-term Sum over the transposed leaf (the
    conjugated / transposed copies of operand and result)."""
    import numpy as np  # noqa: F401
    from cola import ops
    name = type(op).__name__.split("[")[0]
    r, c = (int(op.shape[0]), int(op.shape[1]))
    if depth > 12:
        return None
    if name in ("Triangular", "TriangularInv"):
        return ["tri", r, c]
    if name == "Dense":
        return ["dense", r, c]
    if name == "Sparse":
        return ["sparse", r, c, [[int(i), int(j)] for i, j in zip(op.row_indices, op.col_indices)]]
    if name == "ScalarMul":
        return ["scalar", r]
    if name == "Identity":
        return ["eye", r]
    if name == "Diagonal":
        return ["diag", r]
    if name == "Tridiagonal":
        return ["tridiag", r]
    if name == "Permutation":
        return ["perm", r]
    if name == "Householder":
        return ["house", r]
    if name in ("Product", "Sum", "Kronecker", "KronSum"):
        ms = [real_shape(M, depth + 1) for M in op.Ms]
        if any(m is None for m in ms):
            return None
        return [{"Product": "prod", "Sum": "sum", "Kronecker": "kron", "KronSum": "kronsum"}[name]] + ms
    if name == "BlockDiag":
        ms = [real_shape(M, depth + 1) for M in op.Ms]
        if any(m is None for m in ms):
            return None
        return ["bdiag", ms, [int(x) for x in op.multiplicities]]
    if name in ("Transpose", "Adjoint"):
        inner = real_shape(op.A, depth + 1)
        if inner is None or inner[0] not in ("dense", "tri", "sparse", "diag", "eye", "scalar", "perm", "tridiag", "house"):
            return None
        if inner[0] in ("dense", "tri"):
            inner = [inner[0], inner[2], inner[1]]
        elif inner[0] == "sparse":
            inner = ["sparse", inner[2], inner[1], [[j, i] for i, j in inner[3]]]
        return ["sum", inner]
    return None


def stored_entries(op, seen=None):
    """entries of all arrays reachable from an operator (each array once)"""
    import numpy as np
    from cola.ops import LinearOperator
    seen = {} if seen is None else seen
    stack = [op]
    while stack:
        x = stack.pop()
        if isinstance(x, np.ndarray):
            seen[id(x)] = x.size if x.base is None else 0 if id(x.base) in seen else x.size
        elif isinstance(x, LinearOperator):
            if id(x) not in seen:
                seen[id(x)] = 0
                stack.extend(v for k, v in vars(x).items() if k not in ("xnp", "annotations"))
        elif isinstance(x, (tuple, list)):
            stack.extend(x)
        elif isinstance(x, dict):
            stack.extend(x.values())
        elif hasattr(x, "tocoo") and hasattr(x, "data"):
            seen[id(x)] = int(x.data.size) * 3
    return seen


def lean_models(cases, broken=None):
    """answers of lean/DriverC19.lean by case id.  NEVER raises on a changed tree: when the driver (or one of the modules it
    imports) no longer builds / runs, the failure is recorded in `broken` and {} is returned — the callers then fall back to
    `py_model` for rows / cols / leaf storage, so that the search for a concrete densifying call still runs."""
    import oracle
    try:
        rc, out = common.lake_build(["ColaVerif.DriverLib", "ColaVerif.Model.RuleSkeleton"])
        if rc != 0:
            raise RuntimeError("the modules DriverC19.lean imports do not build:\n" + out[-1500:])
        # one driver case per OPERATOR (all its b's at once: `wf` of a large Permutation / Sparse leaf is quadratic)
        groups, order = {}, []
        for c in cases:
            k = json.dumps(c["op"])
            if k not in groups:
                groups[k] = []
                order.append(k)
            groups[k].append(c)
        gcases = [{"id": gi, "op": json.loads(k), "bs": sorted({c["b"] for c in groups[k]})} for gi, k in enumerate(order)]
        gans = oracle.run_driver(gcases, nproc=min(8, max(1, len(gcases) // 4)), driver="DriverC19.lean")
        bad = [a for a in gans.values() if "rows" not in a]
        if bad:
            raise RuntimeError(f"DriverC19 answered {len(bad)} of {len(gcases)} cases with an error: {json.dumps(bad[0])[:400]}")
        ans = {}
        for gi, k in enumerate(order):
            a = gans[gi]
            per = {x["b"]: x for x in a["per_b"]}
            for c in groups[k]:
                ans[c["id"]] = {kk: vv for kk, vv in a.items() if kk not in ("per_b", "id")} | \
                    {"id": c["id"], "allocs": per[c["b"]]["allocs"], "peak": per[c["b"]]["peak"]}
        return ans
    except Exception as ex:  # noqa: BLE001  (driver does not elaborate, stale object files, time-out, …)
        if broken is not None:
            broken.append({"stage": "Lean driver DriverC19.lean (shape model) unavailable — judged with the Python mirror of rows/cols/leafStorage",
                           "detail": f"{type(ex).__name__}: {str(ex)[-1500:]}"})
        return {}


def py_model(e, b):
    """fallback when the Lean driver is unavailable: rows, cols, leaf storage from the expression (no allocs / rule skeleton)"""
    n = size_of(e)
    return {"rows": n, "cols": n, "vol": n, "leaf": leaf_storage(e), "inScope": True, "wf": True, "square": True,
            "allocs": None, "rules": None, "fallback": True}


def failing_theorems(gate_err):
    """names of the theorems at the error positions of a lake / lean output (`error: file:line:col: …` or
    `file:line:col: error …`).  common.lean_gate keeps only the tail of the build output, so the build of the property module
    is repeated here (cached apart from the failing files) to read the complete list of errors."""
    import re
    text = gate_err or ""
    try:
        _rc, full = common.lake_build([MODULE])
        text = full + "\n" + text
    except Exception:  # noqa: BLE001
        pass
    names = []
    pat = r"(?:error:\s*(?:\./)*(ColaVerif/[\w/]+\.lean):(\d+):(\d+))|(?:(ColaVerif/[\w/]+\.lean):(\d+):(\d+):\s*error)"
    for m in re.finditer(pat, text):
        rel, line = (m.group(1), int(m.group(2))) if m.group(1) else (m.group(4), int(m.group(5)))
        try:
            src = open(os.path.join(common.LEAN_DIR, rel)).read().split("\n")
        except OSError:
            continue
        for k in range(min(line, len(src)) - 1, -1, -1):
            t = re.match(r"\s*(?:private\s+)?(?:theorem|lemma|def|example)\s+(\S+)?", src[k])
            if t:
                nm = f"{t.group(1) or 'example'} ({rel}:{line})"
                if nm not in names:
                    names.append(nm)
                break
    return names


class memory_cap:
    """while a measured call runs the address space of this process may grow by MEMORY_CAP at most: a call that asks for a
    dense n × n array of a large zoo operator fails at once with MemoryError (and is judged as a densification) instead of
    filling the machine.  Restored on exit (the Lean driver runs outside)."""

    def __enter__(self):
        self.old = None
        try:
            import resource
            with open("/proc/self/statm") as fh:
                cur = int(fh.read().split()[0]) * os.sysconf("SC_PAGE_SIZE")
            self.old = resource.getrlimit(resource.RLIMIT_AS)
            hard = self.old[1]
            soft = cur + MEMORY_CAP
            if hard != resource.RLIM_INFINITY:
                soft = min(soft, hard)
            resource.setrlimit(resource.RLIMIT_AS, (soft, hard))
        except Exception:  # noqa: BLE001  (no /proc, no resource module: run without the cap)
            self.old = None
        return self

    def __exit__(self, *exc):
        if self.old is not None:
            import resource
            resource.setrlimit(resource.RLIMIT_AS, self.old)
        return False


def memory_error_shape(err):
    """numpy: "Unable to allocate 18.8 GiB for an array with shape (50176, 50176) and data type float64" -> entries requested"""
    import re
    m = re.search(r"array with shape \(([\d, ]+)\)", err or "")
    if not m:
        return None
    dims = [int(x) for x in m.group(1).replace(" ", "").split(",") if x]
    p = 1
    for x in dims:
        p *= x
    return dims, p


def judge(z, cname, call, pres, res, lean, n, b):
    """IMMEDIATE judgement (no model needed): -> (status, detail): status ∈ ok | violation | error.
    A call that materialises an array with ≥ n²/4 entries, or whose peak reaches a quarter of the dense n × n matrix, is a
    failing input whatever the models say.  The judgement against the Lean bound follows in `judge_model`."""
    import numpy as np
    out = res["out"]
    itemsize = 8
    if out is not None and hasattr(out, "dtype"):
        itemsize = max(8, int(np.dtype(out.dtype).itemsize))
    big = [d for d in res["dens"] if d[1][0] * (d[1][1] if len(d[1]) > 1 else 1) * 4 >= n * n]
    detail = {"peak_bytes": res["peak"], "itemsize": itemsize,
              "dense_n2_bytes": n * n * itemsize, "wall_ms": round(res["wall"] * 1e3, 2),
              "densified": [[w, list(s)] for w, s in res["dens"]][:12]}
    if res["err"]:
        detail["error"] = res["err"]
        req = memory_error_shape(res["err"]) if "MemoryError" in res["err"] else None
        if req and req[1] * 4 >= n * n:
            detail["densified_shape"] = req[0]
            detail["why"] = (f"the call asked for an array of shape {tuple(req[0])} (≥ n²/4 entries, n = {n}) and failed with MemoryError "
                             f"under the address-space cap of the check, during a call that has a structural rule")
            return "violation", detail
        return "error", detail
    if big:
        detail["densified_shape"] = list(big[0][1])
        detail["why"] = f"{big[0][0]} of shape {big[0][1]} (≥ n²/4 entries, n = {n}) during a call that has a structural rule"
        return "violation", detail
    if res["peak"] * 4 >= n * n * 8:
        detail["why"] = (f"peak additional memory {res['peak']} B is at least a quarter of a dense n × n float64 matrix "
                         f"({n * n * 8} B, n = {n}) during a call that has a structural rule")
        return "violation", detail
    return "ok", detail


def judge_model(rec, lean, lean_res):
    """judgement against the bound computed by the Lean definitions.  Sets bound_entries / bound_bytes /
    ratio_peak_to_model in `rec`; returns None or the reason why the call is a failing input."""
    n, b, itemsize = rec["n"], rec["b"], rec["itemsize"]
    fn = rec.get("fn")
    allowance = PY_ALLOWANCE + NUMPY_BUFFERS
    how = None
    if lean.get("fallback") or lean.get("peak") is None:
        # the Lean driver is unavailable: the blanket bound of round 1 on the Python mirror of rows / cols / leaf storage
        model = SLACK * ((lean["rows"] + lean["cols"]) * b + lean["leaf"])
        how = "blanket"
    elif fn is None:
        model = lean["peak"] + (2 * n * b if rec["call"].startswith("X @ A") else 0)
        how = "peakMM(A, b)" + (" + 2·n·b" if rec["call"].startswith("X @ A") else "")
    else:
        cost = lean["rules"][fn]["cost"]
        if rec.get("applied") and lean_res is None:
            # result operator outside the shape language: round 1's blanket bound on top of the rule cost
            model = cost + SLACK * ((lean["rows"] + lean["cols"]) * b + lean["leaf"])
            how = "ruleCost + blanket (result operator outside the shape language)"
        else:
            model = cost + (lean_res["peak"] if lean_res is not None else 0)
            how = "ruleCost(f, A)" + (" + peakMM(result, b)" if lean_res is not None else "")
    rec["model_entries"], rec["model_how"] = model, how
    rec["bound_entries"] = model
    rec["bound_bytes"] = itemsize * model + allowance
    rec["ratio_peak_to_model"] = round(max(rec["peak_bytes"] - allowance, 0) / max(itemsize * model, 1), 3)
    rec["ratio_raw"] = round(rec["peak_bytes"] / max(itemsize * model, 1), 3)
    if rec["status"] != "ok":
        return None
    if rec["peak_bytes"] > rec["bound_bytes"]:
        return (f"peak additional memory {rec['peak_bytes']} B exceeds itemsize × [{how}] + allowance = {itemsize} × {model} + {allowance} "
                f"= {rec['bound_bytes']} B (n = {n}, b = {b}; a dense n × n array has {rec['dense_n2_bytes']} B)")
    # what the result holds beyond the arrays of A must fit into the rule cost
    if fn is not None and rec.get("result_extra_entries") is not None and not lean.get("fallback"):
        cost = lean["rules"][fn]["cost"]
        if rec["result_extra_entries"] > cost:
            return (f"the result operator holds {rec['result_extra_entries']} entries that are not arrays of A; the rule cost model "
                    f"Op.ruleCost {fn} allows {cost}")
    return None


# ------------------------------------------------------------------------------------------
def run_one(ctx, T, m, S, fam, probe, CT, z, cname, pres, lean_by_b, bld, stats, warm=True):
    import numpy as np
    e = z["expr"]
    call = CT[cname]
    n, b = z["n"], call["b"]
    alg_f = dict(call["algs"](z))[pres]
    A = z.get("_A")
    if A is None:
        A = z["_A"] = bld.build(e)
        z["_V"] = np.random.default_rng([bld.seed, 77]).standard_normal((n, max(BS)))
    if warm and not z.get("_warm", {}).get((cname, pres)):
        te = tiny(e)
        tA = z.get("_tA")
        if tA is None:
            tA = z["_tA"] = bld.build(te, "tiny")
            z["_tV"] = np.ones((size_of(te), max(BS)))
        try:
            make_thunk(call, cname, tA, alg_f() if alg_f else None, z["_tV"], {})()
        except Exception:  # noqa: BLE001  (the warm-up result is irrelevant)
            pass
        z.setdefault("_warm", {})[(cname, pres)] = True
    V = z["_V"]                      # (n, 3); calls with b = 1 use its first column
    if cname.startswith(("A @ X", "X @ A")):
        V = np.ascontiguousarray(z["_V"][:, :b])
    alg = alg_f() if alg_f else None
    hold = {}
    res = measure(probe, make_thunk(call, cname, A, alg, V, hold), A)
    lean = lean_by_b[b]
    status, detail = judge(z, cname, call, pres, res, lean, n, b)
    # the shape tree of the operator that was applied (rule families) — for the model judgement after the stream
    res_tree, applied, extra = None, False, None
    if call["fn"] is not None and status == "ok":
        rop = hold.get("op")
        if rop is None and call.get("shadow") is not None:
            try:
                rop = call["shadow"](A, alg_f() if alg_f else None)
            except Exception:  # noqa: BLE001
                rop = None
        if rop is not None:
            applied = True
            try:
                res_tree = real_shape(rop)
                mine = stored_entries(A)
                theirs = stored_entries(rop)
                extra = int(sum(v for k, v in theirs.items() if k not in mine))
            except Exception:  # noqa: BLE001
                res_tree = None
    problems, chain = ([], [])
    if call["fn"] is not None and fam:
        try:
            problems, chain = chain_check(T, m, S, fam, res["rules"])
        except Exception as ex:  # noqa: BLE001  (a rule / class outside the regenerated tables)
            problems, chain = [f"rule-chain comparison failed: {type(ex).__name__}: {str(ex)[:200]}"], []
    rec = {"operator": show(e), "expr": e, "n": n, "call": cname, "alg": pres, "b": b, "status": status,
           "chain": chain, "fn": call["fn"], "applied": applied, "result_tree": res_tree, "result_extra_entries": extra,
           "result_class": type(hold.get("op")).__name__ if hold.get("op") is not None else None, **detail}
    # model-side consistency (not failing inputs by themselves)
    model_issues = []
    if call["fn"] is None and cname.startswith("A @") and lean.get("allocs") is not None:
        tot = sum(lean["allocs"]) * detail["itemsize"] + PY_ALLOWANCE + NUMPY_BUFFERS
        rec["model_total_bytes"] = tot
        if res["peak"] > tot:
            model_issues.append(f"measured peak {res['peak']} B exceeds the model's TOTAL allocation {tot} B: `allocs` misses an allocation")
    if call["fn"] is not None and lean.get("rules") is not None:
        rl = lean["rules"][call["fn"]]
        if not rl["has"]:
            model_issues.append(f"rule skeleton: hasRule {call['fn']} is false for this operator, the harness table schedules it as structural")
        if not rl["deep"]:
            model_issues.append(f"rule skeleton: deepRule {call['fn']} is false for this operator (hypothesis of theorem C19_rule_cost)")
        lim = max([d[0] * d[1] for d in rl["dens"]] + [n * b] + [x * x for x in leaf_sizes(e)])
        for w, s in res["dens"]:
            sz = s[0] * (s[1] if len(s) > 1 else 1)
            if sz > lim:
                model_issues.append(f"{w} of shape {s} is larger than anything the rule skeleton `dens {call['fn']}` lists ({rl['dens']})")
                break
    model_issues += problems
    rec["model_issues"] = model_issues
    stats["evaluations"] += 1
    stats["distinct"].add((skeleton(e), cname, pres))
    if n >= 256:
        stats["nontrivial"].add((skeleton(e), cname, pres))
    return rec


def model_pass(records, lean_of, broken):
    """second driver batch: Op.peakMM of the shape trees of the RESULT operators; then the judgement of every record
    against the Lean bound.  -> records that became failing inputs"""
    trees = {}
    for r in records:
        if r.get("result_tree") is not None and not r.get("directed"):
            trees.setdefault(json.dumps([r["result_tree"], r["b"]]), len(trees))
    cases = [{"id": i, "op": json.loads(k)[0], "b": json.loads(k)[1]} for k, i in trees.items()]
    ans = lean_models(cases, broken) if cases else {}
    newly = []
    for r in records:
        if r.get("directed") or r["status"] == "error":
            continue
        lr = None
        if r.get("result_tree") is not None:
            lr = ans.get(trees[json.dumps([r["result_tree"], r["b"]])])
            if lr is not None and not (lr.get("inScope") and lr.get("wf")):
                r.setdefault("model_issues", []).append(f"result operator tree outside inScope/wf: {json.dumps(r['result_tree'])[:200]}")
                lr = None
        why = judge_model(r, lean_of(r), lr)
        if why:
            r["status"], r["why"] = "violation", why
            newly.append(r)
    return newly


def leaf_sizes(e):
    t = e[0]
    if t in ("dense", "tri", "sparse"):
        return [e[1]]
    if t in ("diag", "eye", "scalar", "tridiag", "perm", "house"):
        return []
    if t == "bdiag":
        return [s for x in e[1] for s in leaf_sizes(x)]
    if t == "smul":
        return leaf_sizes(e[2])
    return [s for x in e[1:] for s in leaf_sizes(x)]


# ------------------------------------------------------------------------------------------
# counterexample-guided search: when the translator reports lattice cases that are EXPECTED (the function has a rule for the
# kind) but do not reach a structural rule — i.e. exactly the cases on which theorem C19_dispatch_<f> no longer checks — the
# public call form of each such case is executed on operators of the zoo of that kind, with several VALUES per argument class
# (the lattice is about classes; which branch of a rule runs may depend on the value: pow(K, 2) is a lazy product, pow(K, 10)
# is apply_unary), and judged like every other call.
# ------------------------------------------------------------------------------------------
def domain_values(m, dom, label):
    import numpy as np
    if dom == "NUM":
        vals = {"int": [2, -1, -2, 10, 0], "float": [0.5, -0.5, 2.5], "float64": [np.float64(0.5), np.float64(-1.5)]}.get(label)
        if vals:
            return vals
    if dom == "FN":
        return [np.exp] if label == "ufunc" else [_plain_square]
    for e in m.dom[dom]:
        if e["label"] == label and e.get("make"):
            return [e["make"]()]
    return []


def _plain_square(x):
    return x * x


def top_kind_name(A):
    return type(A).__name__.split("[")[0]


def directed_search(ctx, T, m, S, fam, probe, Z, bld, failing, stats, lean_all, limit=MAX_REPORTS, budget_s=240):
    """-> (records, tried).  `failing`: the translator's list of expected-but-not-reached lattice cases."""
    import itertools
    import numpy as np
    t0 = time.time()
    forms = {fo["name"]: fo for fo in m.forms}
    recs, tried, found = [], 0, 0
    seen = set()
    for fc in failing:
        fo = forms.get(fc.get("form"))
        if fo is None or found >= limit:
            continue
        kpos = [j for j, d in enumerate(fo["doms"]) if d == "K"]
        if len(kpos) != 1:
            continue
        kind = fc["labels"][kpos[0]]
        cands = [(zi, z) for zi, z in enumerate(Z) if kind in (top_kind_name(z.get("_A0") or _build_once(z, bld)), )]
        for zi, z in cands[:3]:
            if found >= limit or time.time() - t0 > budget_s:
                break
            A = z["_A0"]
            n = z["n"]
            V = np.random.default_rng([bld.seed, 77]).standard_normal((n, max(BS)))
            choices = []
            for j, (d, lab) in enumerate(zip(fo["doms"], fc["labels"])):
                choices.append([A] if j == kpos[0] else domain_values(m, d, lab))
            if any(not c for c in choices):
                continue
            for vals in itertools.product(*choices):
                key = (fo["name"], zi, tuple(repr(v) if not hasattr(v, "shape") or v is A else "A" for v in vals))
                if key in seen or found >= limit or time.time() - t0 > budget_s:
                    continue
                seen.add(key)
                argtxt = ", ".join("A" if v is A else (type(v).__name__ + "()" if hasattr(v, "__dict__") and not callable(v) else
                                                       getattr(v, "__name__", repr(v))) for v in vals)
                cname = f"{fo['name']}  with ({argtxt})"

                def thunk(vals=vals):
                    out = fo["call"](*vals)
                    outs = out if isinstance(out, (tuple, list)) else [out]
                    res = None
                    for o in outs:
                        if hasattr(o, "_matmat") or (hasattr(o, "shape") and hasattr(o, "__matmul__") and not hasattr(o, "dtype")):
                            res = o @ V[:, 0]
                    return res if res is not None else out
                # warm-up on the tiny operator of the same classes (dispatch caches, class creation)
                try:
                    tA = z.get("_tA") or bld.build(tiny(z["expr"]), "tiny")
                    z["_tA"] = tA
                    tout = fo["call"](*[tA if v is A else v for v in vals])
                    for o in (tout if isinstance(tout, (tuple, list)) else [tout]):
                        if hasattr(o, "_matmat"):
                            o @ np.ones(size_of(tiny(z["expr"])))
                except Exception:  # noqa: BLE001
                    pass
                res = measure(probe, thunk, A)
                tried += 1
                lean = (lean_all.get(zi * 100 + 1) if lean_all else None) or py_model(z["expr"], 1)
                status, detail = judge(z, cname, None, fc["labels"], res, lean, n, 1)
                stats["evaluations"] += 1
                stats["distinct"].add((skeleton(z["expr"]), "directed:" + fo["name"], tuple(fc["labels"])))
                rec = {"operator": show(z["expr"]), "expr": z["expr"], "n": n, "call": cname, "alg": "/".join(fc["labels"]), "b": 1,
                       "status": status, "chain": [f"{nm}#{i}" for nm, i, _a in res["rules"]], "directed": True,
                       "lattice_case": {k: fc[k] for k in ("fn", "form", "labels", "conds", "chain") if k in fc},
                       "form": fo["name"], "labels": fc["labels"],
                       "values": [None if v is A else (type(v).__name__ if hasattr(v, "__dict__") and not callable(v) else
                                                        getattr(v, "__name__", None) or repr(v)) for v in vals],
                       "model_issues": [], **detail}
                recs.append(rec)
                if status == "violation":
                    found += 1
    return recs, tried


def _build_once(z, bld):
    if z.get("_A0") is None:
        z["_A0"] = bld.build(z["expr"])
    return z["_A0"]


def replay_payload(rec):
    return {k: rec[k] for k in ("operator", "expr", "n", "call", "alg", "b", "peak_bytes", "bound_bytes", "dense_n2_bytes",
                                "densified", "chain", "why", "densified_shape", "error", "model_issues", "directed", "form", "labels", "values",
                                "lattice_case") if k in rec}


def run(ctx):
    t0 = time.time()
    broken = []
    # (a) translator on the current working tree, in a fresh interpreter
    translator_ok = True
    try:
        rc, so, se = common.sh(["/venv/bin/python", TRANSLATOR, "--quiet"], cwd=common.ROOT, timeout=900)
        if rc != 0:
            raise RuntimeError((so + se)[-3000:])
        tsum = json.loads(so.strip().split("\n")[-1])
    except Exception as ex:  # noqa: BLE001
        # the rule tables of the current tree cannot be regenerated (a hint outside the resolver model, a rule the AST reader
        # cannot follow, …): the dispatch-level theorems then speak about a STALE table — not shown to hold for this tree.  The
        # measured stream still runs (without the rule-chain comparison) and looks for a concrete densifying call.
        translator_ok = False
        tsum = {"failing": [], "n_failing": 0, "functions": 0, "cases": 0, "expected": 0, "structural_rules": 0,
                "forwarding_rules": 0, "generic_rules": 0}
        broken.append({"stage": "translator dump_structural.py failed on the current tree: the rule classification cannot be regenerated "
                                "(theorems C19_dispatch_*, C19_skeleton_* are about a stale table)", "detail": str(ex)[-3000:]})
    t_translate = time.time() - t0
    # (b) Lean gate
    gate, gate_err = None, None
    if not ctx.replay and translator_ok:
        try:
            gate = common.lean_gate(ctx, MODULE)
        except common.LeanGateError as ex:
            gate_err = str(ex)
            rc, out = common.lake_build([MODULE])
            if rc == 0 and "forbidden tokens" not in gate_err and "leanchecker" not in gate_err and "does not elaborate" not in gate_err:
                raise RuntimeError("the Lean library does not build outside the C19 modules (machinery failure, not a C19 result):\n" + gate_err[-2000:])
            broken.append({"stage": "lean gate", "detail": gate_err[-3000:], "translator_failing_cases": tsum.get("failing", [])[:10]})
    t_gate = time.time() - t0 - t_translate
    # (c) runtime tie
    d = os.path.dirname(TRANSLATOR)
    if d not in sys.path:
        sys.path.insert(0, d)
    try:
        T = importlib.import_module("dump_structural")
    except Exception:  # noqa: BLE001  (cola itself does not import on this tree)
        import traceback
        common.violation(ctx, {"broken": "`import cola` / the translator module fails on the current tree: nothing of C19 can be shown or searched",
                               "detail": traceback.format_exc()[-3000:], "earlier": broken}, no_input=True)
        common.write_evidence(ctx, gate, {"evaluations": 0, "distinct_nontrivial": 0, "broken": broken})
        return
    try:
        if not translator_ok:
            raise RuntimeError("skipped: the translator failed in its own interpreter")
        m, S, fam = T.analyse()
    except Exception as ex:  # noqa: BLE001
        import traceback
        if translator_ok:
            broken.append({"stage": "translator analysis inside the check process", "detail": traceback.format_exc()[-2000:]})
        m, S, fam = None, None, {}
    import numpy as np  # noqa: F401
    CT = call_table()
    bld = Builder(ctx.seed)
    tracemalloc.start()
    probe = Probe(T, m, fam)
    stats = {"evaluations": 0, "distinct": set(), "nontrivial": set()}
    records, reported = [], 0
    directed_info = None
    try:
        if ctx.replay:
            rp = json.load(open(ctx.replay))
            if "expr" not in rp:
                print(json.dumps({"replayed": None, "note": "replay file names no input (broken gate / correspondence)"}))
                return
            e = to_tuple(rp["expr"])
            bld = Builder(rp.get("seed", ctx.seed))
            z = {"expr": e, "flags": set(rp.get("flags", [])), "n": size_of(e)}
            if rp.get("directed"):
                recs, _tried = directed_search(ctx, T, m, S, fam, probe, [z], bld, [rp["lattice_case"]], stats, {}, limit=1)
                hit = [r for r in recs if r["status"] == "violation" and r.get("values") == rp.get("values")] or \
                    [r for r in recs if r["status"] == "violation"]
                print(json.dumps({"replayed": f"{rp['call']} on {show(e)}", "calls_tried": len(recs),
                                  "status": "violation" if hit else "ok", "why": hit[0].get("why") if hit else None}))
                if hit:
                    common.violation(ctx, dict(replay_payload(hit[0]), flags=sorted(z["flags"]), replay_of=ctx.replay))
                return
            la = lean_models([{"id": b, "op": shape_tree(e), "b": b} for b in BS], broken)
            lean = {b: la.get(b) or py_model(e, b) for b in BS}
            rec = run_one(ctx, T, m, S, fam, probe, CT, z, rp["call"], rp["alg"], lean, bld, stats)
            model_pass([rec], lambda r: lean[r["b"]], broken)
            print(json.dumps({"replayed": f"{rp['call']} [{rp['alg']}] on {show(e)}", "status": rec["status"],
                              "peak_bytes": rec["peak_bytes"], "bound_bytes": rec.get("bound_bytes"), "model": rec.get("model_how"),
                              "why": rec.get("why"),
                              "densified": rec["densified"][:4], "chain": rec["chain"]}))
            if rec["status"] == "violation":
                common.violation(ctx, dict(replay_payload(rec), flags=sorted(z["flags"]), replay_of=ctx.replay))
            return
        Z = zoo(ctx) + zoo(ctx, 0, "large")
        if ctx.thorough:   # two more draws of the small sizes, one more of the large ones
            Z += zoo(ctx, 1) + zoo(ctx, 2) + zoo(ctx, 1, "large")
        Z.sort(key=lambda z: z["n"])      # small dimensions first: a densifying tree is caught cheaply, and its larger siblings
        failed_small = set()               # (same structure, same call) are then not run at all (`skipped_after_smaller_failure`)
        failed_calls = set()
        skipped_siblings = 0
        cases = []
        for zi, z in enumerate(Z):
            for b in BS:
                cases.append({"id": zi * 100 + b, "op": shape_tree(z["expr"]), "b": b})
        lean_all = lean_models(cases, broken)
        t_lean = time.time() - t0 - t_translate - t_gate
        for zi, z in enumerate(Z):
            if reported >= MAX_REPORTS:
                break   # enough failing inputs; a densifying tree is slow to run through
            lean = {b: lean_all.get(zi * 100 + b) or py_model(z["expr"], b) for b in BS}
            e = z["expr"]
            gc.collect()
            A = z["_A"] = bld.build(e)
            z["_V"] = np.random.default_rng([bld.seed, 77]).standard_normal((z["n"], max(BS)))
            # the Lean shape functions against the real operator
            l1 = lean[1]
            shape_issues = []
            if l1.get("fallback"):
                pass
            elif not (l1["inScope"] and l1["wf"] and l1["square"]):
                shape_issues.append(f"Lean: inScope/wf/squareLeaves = {l1['inScope']}/{l1['wf']}/{l1['square']}")
            if l1.get("fallback"):
                pass
            elif (l1["rows"], l1["cols"]) != tuple(int(x) for x in A.shape):
                shape_issues.append(f"Lean rows × cols {l1['rows']} × {l1['cols']} vs real shape {A.shape}")
            if not l1.get("fallback") and not (l1["leaf"] == real_leaf_storage(A) == leaf_storage(e)):
                shape_issues.append(f"Lean leafStorage {l1['leaf']} vs real Σ dense leaves {real_leaf_storage(A)} vs expression {leaf_storage(e)}")
            for b in BS:
                if lean[b].get("allocs") and max(lean[b]["allocs"]) > lean[b]["rows"] * b + lean[b]["leaf"]:
                    shape_issues.append(f"allocs {lean[b]['allocs']} exceeds rows·b + leaf — contradicts theorem C19_matmat")
                if lean[b].get("peak") is not None and lean[b]["peak"] > lean[b]["lvl"] * lean[b]["rows"] * b + lean[b]["leaf"]:
                    shape_issues.append(f"peakMM {lean[b]['peak']} exceeds lvl·rows·b + leaf — contradicts theorem C19_matmat_peak")
            if shape_issues:
                broken.append({"stage": "Lean shape model vs real operator", "operator": show(e), "issues": shape_issues})
            for cname, call in CT.items():
                if call["flag"] not in z["flags"]:
                    continue
                if z.get("scale") == "small" and not ctx.thorough and "(b=3)" in cname:
                    continue            # quick: the small size class ("keep a few small ones") runs b = 1 and b = 16 only …
                for pres, _f in call["algs"](z):
                    if reported >= MAX_REPORTS:
                        break
                    if z.get("scale") == "small" and not ctx.thorough and pres == "Auto":
                        continue        # … and the algorithm omitted / one concrete class; Auto() is run on the large class
                    if (skeleton(e), cname) in failed_small or (z.get("scale") == "large" and cname in failed_calls):
                        # the same call already densified on a smaller operator (of this structure / of any structure for the
                        # large size class): the failing input is reported; running it on n ≈ 50 k would only take long
                        skipped_siblings += 1
                        continue
                    with memory_cap():
                        rec = run_one(ctx, T, m, S, fam, probe, CT, z, cname, pres, lean, bld, stats)
                    rec["flags"] = sorted(z["flags"])
                    rec["zi"] = zi
                    rec["scale"] = z.get("scale", "small")
                    records.append({k: v for k, v in rec.items() if k != "expr"} | {"expr": e})
                    if rec["status"] == "error":
                        failed_small.add((skeleton(e), cname))
                    if rec["status"] == "violation":
                        failed_small.add((skeleton(e), cname))
                        failed_calls.add(cname)
                        common.violation(ctx, dict(replay_payload(rec), flags=sorted(z["flags"])))
                        reported += 1
            for k in ("_A", "_V", "_tA", "_tV"):
                z.pop(k, None)
        # counterexample-guided search on the lattice cases the dispatch theorems no longer cover
        if fam and tsum.get("failing") and reported < MAX_REPORTS:
            drecs, dtried = directed_search(ctx, T, m, S, fam, probe, Z, bld, tsum["failing"], stats, lean_all,
                                            limit=MAX_REPORTS - reported)
            directed_info = {"lattice_cases": len(tsum["failing"]), "calls_tried": dtried,
                             "violations": sum(1 for r in drecs if r["status"] == "violation")}
            for rec in drecs:
                records.append(rec)
                if rec["status"] == "violation":
                    common.violation(ctx, dict(replay_payload(rec), flags=[], expr=rec["expr"]))
                    reported += 1
            for z in Z:
                for k in ("_A0", "_tA"):
                    z.pop(k, None)
    finally:
        probe.restore()
        tracemalloc.stop()
    # judgement against the bounds computed by the Lean definitions (second driver batch: the result operators)
    if records and not ctx.replay:
        def lean_of(r):
            return lean_all.get(r["zi"] * 100 + r["b"]) or py_model(r["expr"], r["b"])
        for r in model_pass(records, lean_of, broken):
            if reported < 2 * MAX_REPORTS:
                common.violation(ctx, dict(replay_payload(r), flags=r.get("flags", [])))
                reported += 1
    t_run = time.time() - t0 - t_translate - t_gate
    errors = [r for r in records if r["status"] == "error" and not r.get("directed")]
    viol = [r for r in records if r["status"] == "violation"]
    issues = [r for r in records if r["model_issues"]]
    if errors:
        broken.append({"stage": "public call raised", "count": len(errors),
                       "first": [{"operator": r["operator"], "call": r["call"], "alg": r["alg"], "error": r["error"]} for r in errors[:6]]})
    if issues:
        broken.append({"stage": "model vs running code (rule chain / allocs total / rule skeleton)", "count": len(issues),
                       "first": [{"operator": r["operator"], "call": r["call"], "alg": r["alg"], "issues": r["model_issues"][:3]} for r in issues[:6]]})
    if tsum.get("n_failing"):
        broken.append({"stage": "translator: expected lattice cases that do not reach a structural rule", "count": tsum["n_failing"],
                       "first": tsum["failing"][:6]})
    unchecked = failing_theorems(gate_err)
    if broken and not viol:
        common.violation(ctx, {"broken": [b["stage"] for b in broken],
                               "theorems_that_no_longer_check": unchecked,
                               "what": ("the property is no longer shown to hold: " + (", ".join(unchecked) or "see detail") +
                                        "; the measured stream (and the counterexample-guided search on the uncovered lattice cases) "
                                        "found no call that densifies"),
                               "directed_search": directed_info, "detail": broken}, no_input=True)
    # (d) evidence
    ok = [r for r in records if r["status"] == "ok" and r.get("bound_bytes")]
    ratios = sorted(r["ratio_raw"] for r in ok)
    by_call = {}
    for r in ok:
        by_call.setdefault(r["call"], []).append(r["ratio_raw"])
    samples = []
    for r in sorted(ok, key=lambda r: -r["ratio_raw"])[:4] + ok[::max(1, len(ok) // 8)][:8]:
        samples.append({k: r[k] for k in ("operator", "n", "call", "alg", "b", "peak_bytes", "bound_bytes", "dense_n2_bytes", "model_how",
                                          "model_entries", "ratio_raw", "wall_ms", "chain", "densified")})
    cov = {
        "evaluations": stats["evaluations"],
        "distinct_nontrivial": len(stats["nontrivial"]),
        "distinct": len(stats["distinct"]),
        "rule": ("distinct = (operator structure without sizes, public call, algorithm presence) triples measured; non-trivial = the "
                 "operator has n ≥ 256 (all have n² ≥ 1000 × factor storage, checked when the zoo is built): a dense n × n "
                 "materialisation (n² entries) is far outside the judged bound itemsize × [Op.peakMM | Op.ruleCost + Op.peakMM(result)] + 256 KiB — the measured factor is reported as dense_over_bound_min. "
                 "Two size classes (SIZES): small (quick: b ∈ {1, 16}, algorithm omitted / one concrete class) and large (all b, all "
                 "algorithm presences), the latter dimensioned so that the model term is at least 4 × the allowance (model_dominated)"),
        "operators": [{"operator": show(z["expr"]), "scale": z.get("scale"), "n": z["n"], "factor_storage": z["factor_storage"],
                       "n2_over_storage": round(z["ratio"])}
                      for z in (Z if not ctx.replay else [])],
        "calls": sorted(CT),
        "peak_over_model_entries": {"max": ratios[-1] if ratios else None, "median": ratios[len(ratios) // 2] if ratios else None,
                                    "judged_limit": 1.0,
                                    "note": "raw ratio measured peak / (itemsize × Lean bound), WITHOUT the 256 KiB allowance; above 1 only where the bound is smaller than the allowance"},
        "max_ratio_by_call": {k: max(v) for k, v in sorted(by_call.items())},
        "model_dominated": (lambda big: {
            "rule": f"records whose Lean bound is at least {MODEL_DOMINATED} × the fixed allowance (256 KiB), i.e. itemsize × MODEL >= 1 MiB: there "
                    "the comparison is about the model (peakMM, ruleCost with cf / ownW), not the allowance; the zoo's `large` size class is "
                    "dimensioned for this",
            "count": len(big), "of_records": len(ok), "fraction": round(len(big) / max(1, len(ok)), 3),
            "by_scale": {sc: {"records": sum(1 for r in ok if r.get("scale") == sc),
                              "model_dominated": sum(1 for r in big if r.get("scale") == sc)} for sc in ("small", "large")},
            "by_judgement": {k: sum(1 for r in big if r.get("model_how") == k) for k in sorted({r.get("model_how") for r in big})},
            "max_peak_over_model": max((r["ratio_raw"] for r in big), default=None),
            "median_peak_over_model": sorted(r["ratio_raw"] for r in big)[len(big) // 2] if big else None,
            "min_peak_over_model": min((r["ratio_raw"] for r in big), default=None),
            "top": [{k: r[k] for k in ("operator", "call", "alg", "peak_bytes", "model_entries", "model_how", "ratio_raw")}
                    for r in sorted(big, key=lambda r: -r["ratio_raw"])[:5]]})(
            [r for r in ok if r["itemsize"] * r["model_entries"] >= MODEL_DOMINATED * (PY_ALLOWANCE + NUMPY_BUFFERS)]),
        "skipped_after_smaller_failure": skipped_siblings if not ctx.replay else 0,
        "dense_over_bound_min": round(min((r["dense_n2_bytes"] / r["bound_bytes"] for r in records if r.get("bound_bytes")), default=0), 1),
        "judged_by": {k: sum(1 for r in records if r.get("model_how") == k) for k in sorted({r.get("model_how") for r in records if r.get("model_how")})},
        "result_classes_outside_shape_language": sorted({r["result_class"] for r in records if r.get("applied") and r.get("result_tree") is None
                                                         and r.get("result_class")}),
        "stopped_early_after_violations": bool(records) and len(viol) >= MAX_REPORTS,
        "violations_found": len(viol), "errors": len(errors), "model_issues": len(issues),
        "lattice": {k: tsum[k] for k in ("functions", "cases", "expected", "structural_rules", "forwarding_rules", "generic_rules")},
        "samples": samples,
        "wall_time_ms_total_calls": round(sum(r["wall_ms"] for r in records), 1),
        "timing_s": {"translator": round(t_translate, 1), "lean_gate": round(t_gate, 1), "runtime_tie": round(t_run, 1)},
        "model_bound_source": "rows, leafStorage, allocs, peakMM, lvl, ruleCost, deepRule, dens computed by the Lean definitions (lake env lean --run DriverC19.lean) on the shape tree of every operator and of every result operator",
        "trusted_base_extra": [
            "harness/translators/dump_structural.py: AST classification of the rules (attribute whitelist ALLOWED_ATTRS, FAMILY, STRUCTURED are part of the statement); checked against the running code by the rule-chain log",
            "tracemalloc reports numpy's data buffers (numpy registers them in its tracemalloc domain); LAPACK work space is not traced",
            "NumPy copy/view semantics assumed in Model/Cost.lean (reshape of a moved view copies, astype copies, += in place), covered by 'Σ allocs ≥ measured peak'",
        ],
    }
    if directed_info:
        cov["directed_search"] = directed_info
    if unchecked:
        cov["theorems_that_no_longer_check"] = unchecked
    if broken:
        cov["broken"] = broken
    common.write_evidence(ctx, gate, cov, assumptions=[
        "X @ A is judged only where cola's own code is matrix-free on the NumPy backend: operators with an explicit _rmatmat (Dense, Diagonal, Sum, Product of those) and SelfAdjoint-annotated operators (conjugation shortcut through _matmat); the default _rmatmat of the other kinds goes through xnp.linear_transpose, which on this image is the harness shim (f(I)ᵀ @ X), not cola code",
        "the forwarding analysis looks at the operator argument only: what a forwarding rule does with the RESULT of the callee is covered by the runtime tie, not by the dispatch-level theorem",
        "peak memory is judged against the Lean live-set model Op.peakMM (A @ X; measured/model up to 1.03 on the large size class) and Op.ruleCost + Op.peakMM of the result operator (rule families), plus a FIXED allowance of 256 KiB = 64 KiB Python objects + 3 numpy ufunc iteration buffers of 8192 elements (measured: `d[:, None] * X` allocates one such buffer besides its result); IEEE values of the results are not judged here (C06–C11)",
        "constants of Op.ruleCost (cf = dense copies of a FACTOR made by the generic rule, ownW = linear-size vectors per member made by a structural rule) are read off the source of the rules (doc comment in Model/RuleSkeleton.lean) and are upper bounds; LAPACK work space is not traced",
        "while a measured call runs, the address space of the check process may grow by 3 GiB at most (RLIMIT_AS, restored afterwards): a MemoryError whose requested array has ≥ n²/4 entries is judged as a densification; operators with a top-level Permutation leaf stay at n ≈ 11–12 k in the large class because Op.wf (Nodup of the permutation) is quadratic in the interpreted driver; for the same reason (Nodup of the coordinate list) the large class draws no standalone Sparse operator — Sparse occurs there as a Kronecker factor / block only, the standalone one in the small class",
        "the shape tree of a RESULT operator is read off the real object by class (TriangularInv is given the cost class of a Triangular product, Transpose / Adjoint of a leaf that of a one-term Sum); result classes outside the language fall back to the blanket bound of round 1 and are listed in the evidence",
    ])
    print(json.dumps({"evaluations": stats["evaluations"], "distinct_nontrivial": len(stats["nontrivial"]), "violations": len(viol),
                      "errors": len(errors), "model_issues": len(issues), "max_ratio": ratios[-1] if ratios else None,
                      "gate": (gate or {}).get("obligations"), "gate_broken": gate_err is not None, "timing_s": cov["timing_s"]}))


def to_tuple(e):
    if isinstance(e, list):
        if e and isinstance(e[0], str):
            if e[0] == "bdiag":
                return ("bdiag", [to_tuple(x) for x in e[1]], list(e[2]))
            return tuple(to_tuple(x) if isinstance(x, list) else x for x in e)
        return [to_tuple(x) for x in e]
    return e
