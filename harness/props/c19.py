"""C19 — structured operators are never densified: cost stays proportional to the factors.

Every run:
 (a) harness/translators/dump_structural.py (fresh interpreter) regenerates
     lean/ColaVerif/Gen/RuleTable.lean (through dump_rules.py) and
     lean/ColaVerif/Gen/StructuralRules.lean from the live dispatcher and the SOURCE of the rules
     of /repo's working tree (AST classification structural / forwarding / generic, the C19 lattice);
 (b) Lean gate: ColaVerif.Properties.C19 (dispatch level by kernel evaluation on the generated table;
     cost level `allocs ≤ vol·b + leafStorage`; rule level) is rebuilt and its axioms audited;
 (c) runtime tie on LARGE structured operators (n² ≥ 1000 × factor storage): for every public call
     of the statement (A @ X, X @ A, inv/solve, logdet/slogdet, diag, trace, exp, pow/sqrt/isqrt,
     cholesky, plu — algorithm argument OMITTED, Auto(), and a concrete admissible class)
       * peak additional memory (tracemalloc, numpy reports its buffers there) must be
         ≤ 8 × itemsize × ((rows + cols)·b + leafStorage) + PY_ALLOWANCE, where `rows`, `cols`, `leafStorage` (and the
         list `allocs`) are computed by the LEAN model (lake env lean --run DriverC19.lean) for the
         shape tree of the operator — the right-hand side of theorem C19_matmat_rows_cols;
       * every `to_dense()` / `Dense(...)` during the call is logged (monkeypatch in this process):
         an array with ≥ n²/4 entries is directly a failing input;
       * every rule of the family entered ON THE OPERATOR ITSELF is logged and compared with the
         model: the resolver mirror must select that rule, a structural rule must end the chain, a
         forwarding rule must be followed by one of the calls read off its AST;
       * the Lean model's total `Σ allocs` must cover the measured peak of A @ X (the model lists
         every allocation), `rows`/`leafStorage` must equal the real operator's, and the rule
         skeleton `dens` must cover the logged densifications.
     Wall time is reported, never judged.
 (d) evidence.
"""
import gc
import importlib
import json
import os
import random
import sys
import time
import tracemalloc
import zlib

import common

MODULE = "ColaVerif.Properties.C19"
TRANSLATOR = os.path.join(common.ROOT, "harness", "translators", "dump_structural.py")
SLACK = 8                 # fixed multiple of the model bound (number of simultaneously live arrays)
PY_ALLOWANCE = 64 * 1024  # bytes: Python objects (dispatch caches, parametric classes) traced alongside
NUMPY_BUFFERS = 192 * 1024  # bytes: ufunc iteration buffers (8192 elements each) that numpy allocates internally
MAX_REPORTS = 6           # failing inputs reported before the stream stops
RATIO_MIN = 1000          # statement: n² ≥ 1000 × factor storage

# Defects of /repo found by this check and not yet decided (see docs/BUILDER_NOTES.md): none for C19.
# (Met on the way, outside C19: inv / solve of a Product that contains a ScalarMul raises
#  "AssertionError: There is a device mismatch in Product" on the NumPy backend — those calls are not scheduled.)
PROVISIONAL_KNOWN = {}


# ------------------------------------------------------------------------------------------
# operator expressions (own tiny language: payloads are random, only the structure matters)
#   ("dense", m, flavour)   flavour: "gen" well conditioned | "psd" cola.PSD(G Gᵀ/m + I) | "sym" cola.SelfAdjoint
#   ("diag", n) positive | ("eye", n) | ("scalar", c, n)
#   ("kron", e…) | ("kronsum", e…) | ("bdiag", [e…], [mult…]) | ("sum", e…) | ("prod", e…) | ("smul", c, e)
# ------------------------------------------------------------------------------------------
def size_of(e):
    t = e[0]
    if t == "dense":
        return e[1]
    if t in ("diag", "eye"):
        return e[1]
    if t == "scalar":
        return e[2]
    if t in ("kron", "kronsum"):
        p = 1
        for x in e[1:]:
            p *= size_of(x)
        return p
    if t == "bdiag":
        return sum(size_of(x) * m for x, m in zip(e[1], e[2]))
    if t in ("sum", "prod"):
        return size_of(e[1])
    if t == "smul":
        return size_of(e[2])
    raise ValueError(t)


def leaf_storage(e):
    t = e[0]
    if t == "dense":
        return e[1] * e[1]
    if t in ("diag", "eye", "scalar"):
        return 0
    if t == "bdiag":
        return sum(leaf_storage(x) for x in e[1])
    if t == "smul":
        return leaf_storage(e[2])
    return sum(leaf_storage(x) for x in e[1:])


def factor_storage(e):
    """what the operator stores: dense leaves and diagonal vectors"""
    t = e[0]
    if t == "dense":
        return e[1] * e[1]
    if t == "diag":
        return e[1]
    if t in ("eye", "scalar"):
        return 1
    if t == "bdiag":
        return sum(factor_storage(x) for x in e[1])
    if t == "smul":
        return 1 + factor_storage(e[2])
    return sum(factor_storage(x) for x in e[1:])


def shape_tree(e):
    """the same structure in the shape language of lean/DriverC19.lean"""
    t = e[0]
    if t == "dense":
        d = ["dense", e[1], e[1]]
        return ["ann", d] if e[2] in ("psd", "sym") else d
    if t == "diag":
        return ["diag", e[1]]
    if t == "eye":
        return ["eye", e[1]]
    if t == "scalar":
        return ["scalar", e[2]]
    if t == "bdiag":
        return ["bdiag", [shape_tree(x) for x in e[1]], list(e[2])]
    if t == "smul":   # cola.fns.mul: Product(ScalarMul, A)
        return ["prod", ["scalar", size_of(e[2])], shape_tree(e[2])]
    return [t] + [shape_tree(x) for x in e[1:]]


def show(e):
    t = e[0]
    if t == "dense":
        return f"D{e[1]}" + {"gen": "", "psd": "ᵖ", "sym": "ˢ"}[e[2]]
    if t == "diag":
        return f"Diag{e[1]}"
    if t == "eye":
        return f"I{e[1]}"
    if t == "scalar":
        return f"{e[1]}·I{e[2]}"
    if t == "bdiag":
        return "BlockDiag(" + ", ".join(f"{show(x)}×{m}" for x, m in zip(e[1], e[2])) + ")"
    if t == "smul":
        return f"{e[1]}*{show(e[2])}"
    op = {"kron": " ⊗ ", "kronsum": " ⊕ ", "sum": " + ", "prod": " @ "}[t]
    return "(" + op.join(show(x) for x in e[1:]) + ")"


def skeleton(e):
    """structure without sizes (for `distinct` counting)"""
    t = e[0]
    if t == "dense":
        return "D" + e[2]
    if t in ("diag", "eye", "scalar"):
        return t
    if t == "bdiag":
        return "bdiag(" + ",".join(skeleton(x) for x in e[1]) + ")"
    if t == "smul":
        return "smul(" + skeleton(e[2]) + ")"
    return t + "(" + ",".join(skeleton(x) for x in e[1:]) + ")"


class Builder:
    def __init__(self, seed):
        self.seed = seed

    def build(self, e, path="r"):
        import numpy as np
        import cola
        from cola.ops import BlockDiag, Dense, Diagonal, Identity, Kronecker, KronSum, ScalarMul
        t = e[0]
        rng = np.random.default_rng([self.seed, zlib.crc32(path.encode())])
        if t == "dense":
            m = e[1]
            G = rng.standard_normal((m, m)) / np.sqrt(m)
            if e[2] == "psd":
                return cola.PSD(Dense(G @ G.T + np.eye(m)))
            if e[2] == "sym":
                return cola.SelfAdjoint(Dense((G + G.T) / 2))
            return Dense(G + 2.0 * np.eye(m))
        if t == "diag":
            return Diagonal(1.0 + rng.random(e[1]))
        if t == "eye":
            return Identity((e[1], e[1]), np.float64)
        if t == "scalar":
            return ScalarMul(float(e[1]), (e[2], e[2]), dtype=np.float64)
        if t == "kron":
            return Kronecker(*[self.build(x, f"{path}.{i}") for i, x in enumerate(e[1:])])
        if t == "kronsum":
            return KronSum(*[self.build(x, f"{path}.{i}") for i, x in enumerate(e[1:])])
        if t == "bdiag":
            return BlockDiag(*[self.build(x, f"{path}.{i}") for i, x in enumerate(e[1])], multiplicities=list(e[2]))
        if t == "sum":
            ms = [self.build(x, f"{path}.{i}") for i, x in enumerate(e[1:])]
            out = ms[0]
            for M in ms[1:]:
                out = out + M
            return out
        if t == "prod":
            ms = [self.build(x, f"{path}.{i}") for i, x in enumerate(e[1:])]
            out = ms[0]
            for M in ms[1:]:
                out = out @ M
            return out
        if t == "smul":
            return float(e[1]) * self.build(e[2], path + ".s")
        raise ValueError(t)


def tiny(e, n=None):
    """the same structure with dense sizes 2 and multiplicities 2 (warm-up: same classes, hence
    the same dispatch cache keys); `n` forces the size of a parametrised leaf"""
    t = e[0]
    if t == "dense":
        return ("dense", 2, e[2])
    if t in ("diag", "eye"):
        return (t, n or 2)
    if t == "scalar":
        return ("scalar", e[1], n or 2)
    if t == "bdiag":
        return ("bdiag", [tiny(x) for x in e[1]], [2 for _ in e[2]])
    if t == "smul":
        return ("smul", e[1], tiny(e[2], n))
    if t in ("sum", "prod"):
        comp = [tiny(x) for x in e[1:] if x[0] not in ("diag", "eye", "scalar")]
        target = size_of(comp[0]) if comp else (n or 2)
        return (t, ) + tuple(tiny(x, target) for x in e[1:])
    return (t, ) + tuple(tiny(x) for x in e[1:])


# ------------------------------------------------------------------------------------------
# the zoo
# ------------------------------------------------------------------------------------------
def zoo(ctx, rnd=0):
    """list of dict(expr, calls) — sizes drawn from random.Random(seed); every operator has
    n² ≥ 1000 × factor storage (checked)"""
    rng = random.Random(ctx.seed * 7919 + 19 + 104729 * rnd)
    big = ctx.thorough
    Z = []

    def d(m, fl="gen"):
        return ("dense", m, fl)

    def add(e, *flags):
        Z.append({"expr": e, "flags": set(flags)})

    def r(a, b):
        return rng.randint(a, b)

    # Kronecker, 2–4 factors (general and PSD factors)
    m2 = [(r(46, 52), r(46, 52)), (64, 64)] if big else [(r(46, 50), r(46, 50))]
    for a, b in m2:
        add(("kron", d(a), d(b)), "mm", "inv", "diag", "plu")
        add(("kron", d(a, "psd"), d(b, "psd")), "mm", "rmm", "inv", "psd", "diag", "pow", "chol", "plu")
    m3 = [(r(11, 14), r(11, 14), r(11, 14)), (16, 16, 16)] if big else [(r(11, 13), r(11, 13), r(11, 13))]
    for a, b, c in m3:
        add(("kron", d(a), d(b), d(c)), "mm", "inv", "diag", "plu")
        add(("kron", d(a, "psd"), d(b, "psd"), d(c, "psd")), "mm", "rmm", "inv", "psd", "diag", "pow", "chol")
    m4 = [(r(5, 8), r(5, 8), r(5, 8), r(5, 8)), (8, 8, 8, 8)] if big else [(r(5, 7), r(5, 7), r(5, 7), r(5, 7))]
    for a, b, c, e4 in m4:
        add(("kron", d(a), d(b, "psd"), d(c), d(e4, "psd")), "mm", "inv", "diag", "plu")
        if big:
            add(("kron", d(a, "psd"), d(b, "psd"), d(c, "psd"), d(e4, "psd")), "mm", "rmm", "inv", "psd", "diag", "pow", "chol")
    # Kronecker with Diagonal / Identity factors
    a = r(46, 50)
    add(("kron", d(a), ("diag", r(46, 50))), "mm", "inv", "diag")
    add(("kron", ("eye", r(38, 42)), d(r(54, 58), "psd")), "mm", "inv", "diag", "chol")
    # KronSum
    a, b = (r(46, 50), r(46, 50))
    add(("kronsum", d(a), d(b)), "mm", "diag", "exp")
    add(("kronsum", d(a, "sym"), d(b, "sym")), "mm", "diag", "exp", "sym")
    a, b, c = r(11, 13), r(11, 13), r(11, 13)
    add(("kronsum", d(a), d(b), d(c)), "mm", "diag", "exp")
    if big:
        add(("kronsum", d(64), d(64)), "mm", "diag", "exp")
        add(("kronsum", d(8), d(8), d(8), d(8)), "mm", "diag", "exp")
    # BlockDiag with multiplicities
    a, b = r(36, 42), r(20, 26)
    add(("bdiag", [d(a), d(b)], [r(28, 32), r(40, 48)]), "mm", "inv", "diag", "plu")
    add(("bdiag", [d(a, "psd"), d(b, "psd")], [r(28, 32), r(40, 48)]), "mm", "inv", "psd", "diag", "unary", "chol")
    if big:
        add(("bdiag", [d(32, "psd"), d(16, "psd"), ("diag", 64)], [64, 120, 2]), "mm", "inv", "psd", "diag", "unary", "chol")
    # sums with Diagonal / ScalarMul / Identity (a Diagonal member stores n numbers: larger factors)
    a, b = r(56, 60), r(56, 60)
    add(("sum", ("kron", d(a), d(b)), ("diag", a * b)), "mm", "diag")
    add(("sum", ("kronsum", d(a), d(b)), ("scalar", 0.5, a * b), ("eye", a * b)), "mm", "diag")
    m1, q1, m2_, q2 = r(36, 40), r(40, 44), r(20, 24), r(60, 66)
    add(("sum", ("bdiag", [d(m1), d(m2_)], [q1, q2]), ("diag", m1 * q1 + m2_ * q2)), "mm", "diag")
    # products with Diagonal / ScalarMul / Identity, and of two Kronecker products
    a, b = r(56, 60), r(56, 60)
    add(("prod", ("diag", a * b), ("kron", d(a), d(b))), "mm", "inv")
    # (inv / solve of a Product containing a ScalarMul raises "device mismatch" on the NumPy backend —
    #  inv(ScalarMul) passes device=A.c.device == "cpu"; a C06 matter, not scheduled here; logdet is)
    add(("smul", 2.5, ("kron", d(a, "psd"), d(b, "psd"))), "mm", "logdet")
    k3 = (r(11, 13), r(11, 13), r(11, 13))
    add(("prod", ("kron", d(k3[0]), d(k3[1]), d(k3[2])), ("kron", d(k3[0]), d(k3[1]), d(k3[2]))), "mm", "inv")
    add(("prod", ("bdiag", [d(m1), d(m2_)], [q1, q2]), ("diag", m1 * q1 + m2_ * q2)), "mm", "inv")
    add(("prod", ("diag", a * b), ("diag", a * b), ("scalar", 3.0, a * b)), "mm", "logdet")
    add(("prod", ("diag", a * b), ("diag", a * b)), "mm", "rmm", "inv")
    # the plain parametrised kinds
    nn = 4096 if big else r(2500, 3500)
    add(("diag", nn), "mm", "rmm", "inv", "diag", "unary", "chol", "plu")
    add(("eye", nn), "mm", "rmm", "inv", "diag", "unary", "chol", "plu")
    add(("scalar", 1.5, nn), "mm", "inv", "diag", "unary", "chol", "plu")
    for z in Z:
        if "inv" in z["flags"]:
            z["flags"].add("logdet")
        e = z["expr"]
        n, fs = size_of(e), factor_storage(e)
        z["n"], z["factor_storage"], z["ratio"] = n, fs, n * n / max(fs, 1)
        if z["ratio"] < RATIO_MIN:
            raise RuntimeError(f"zoo entry {show(e)}: n² / factor storage = {z['ratio']:.0f} < {RATIO_MIN}")
    Z.sort(key=lambda z: z["n"])   # small dimensions first: a densifying tree is then caught cheaply
    return Z


# ------------------------------------------------------------------------------------------
# public calls
# ------------------------------------------------------------------------------------------
def call_table():
    """name -> dict(flag, fn (skeleton function for the Lean rule level, None for A @ X),
    run(A, alg, V) -> array/scalar result, b, algs: list of (presence label, factory|None))"""
    import numpy as np
    import cola
    L = cola.linalg
    dec = sys.modules["cola.linalg.decompositions.decompositions"]
    Auto, LU, Chol = L.Auto, L.LU, L.Cholesky
    Exact = L.Exact
    Eig, Eigh = L.Eig, L.Eigh

    def alg_args(alg):
        return () if alg is None else (alg, )

    T = {}

    def reg(name, flag, fn, run, b, algs):
        T[name] = {"flag": flag, "fn": fn, "run": run, "b": b, "algs": algs}

    none = [("n/a", None)]
    inv_algs = lambda z: [("omitted", None), ("Auto", Auto), ("LU", LU)] + ([("Cholesky", Chol)] if "psd" in z["flags"] else [])  # noqa: E731
    tr_algs = lambda z: [("omitted", None), ("Auto", Auto), ("Exact", Exact)]  # noqa: E731
    un_algs = lambda z: [("omitted", None), ("Auto", Auto), ("Eigh", Eigh) if ("psd" in z["flags"] or "sym" in z["flags"]) else ("Eig", Eig)]  # noqa: E731
    for b in (1, 3):
        reg(f"A @ X (b={b})", "mm", None, lambda A, alg, V: A @ V, b, lambda z: none)
        reg(f"X @ A (b={b})", "rmm", None, lambda A, alg, V: V.T @ A, b, lambda z: none)
    reg("A @ x (vector)", "mm", None, lambda A, alg, V: A @ V[:, 0], 1, lambda z: none)
    reg("inv(A) @ V", "inv", "inv", lambda A, alg, V: L.inv(A, *alg_args(alg)) @ V, 3, inv_algs)
    reg("solve(A, v)", "inv", "inv", lambda A, alg, V: L.solve(A, V[:, 0], *alg_args(alg)), 1, inv_algs)
    reg("logdet(A)", "logdet", "slogdet", lambda A, alg, V: L.logdet(A, *alg_args(alg)), 1, inv_algs)
    reg("slogdet(A)", "logdet", "slogdet", lambda A, alg, V: L.slogdet(A, *alg_args(alg))[1], 1, inv_algs)
    reg("diag(A, 0)", "diag", "diag", lambda A, alg, V: L.diag(A, 0, *alg_args(alg)), 1, tr_algs)
    reg("trace(A)", "diag", "trace", lambda A, alg, V: L.trace(A, *alg_args(alg)), 1, tr_algs)
    reg("exp(A) @ v", "exp", "exp", lambda A, alg, V: L.exp(A, *alg_args(alg)) @ V[:, 0], 1, un_algs)
    reg("pow(A, 0.5) @ V", "pow", "pow", lambda A, alg, V: L.pow(A, 0.5, *alg_args(alg)) @ V, 3, un_algs)
    reg("sqrt(A) @ v", "pow", "pow", lambda A, alg, V: L.sqrt(A, *alg_args(alg)) @ V[:, 0], 1, un_algs)
    reg("isqrt(A) @ v", "pow", "pow", lambda A, alg, V: L.isqrt(A, *alg_args(alg)) @ V[:, 0], 1, un_algs)
    # kinds with an apply_unary rule (BlockDiag, Diagonal, Identity, ScalarMul): exp / log / sqrt go through it
    reg("exp(A) @ v [apply_unary]", "unary", "exp", lambda A, alg, V: L.exp(A, *alg_args(alg)) @ V[:, 0], 1, un_algs)
    reg("log(A) @ v [apply_unary]", "unary", "unary", lambda A, alg, V: L.log(A, *alg_args(alg)) @ V[:, 0], 1, un_algs)
    reg("sqrt(A) @ v [apply_unary]", "unary", "pow", lambda A, alg, V: L.sqrt(A, *alg_args(alg)) @ V[:, 0], 1, un_algs)
    reg("cholesky(A) @ v", "chol", "chol", lambda A, alg, V: dec.cholesky(A) @ V[:, 0], 1, lambda z: none)
    reg("plu(A): L @ v", "plu", "plu", lambda A, alg, V: dec.plu(A)[1] @ V[:, 0], 1, lambda z: none)
    return T


# ------------------------------------------------------------------------------------------
# instrumentation
# ------------------------------------------------------------------------------------------
class Probe:
    """densification log + rule-entry log (monkeypatches in THIS process only)"""

    def __init__(self, T, m, fam):
        from cola.ops import Dense, LinearOperator
        self.T, self.m, self.fam = T, m, fam
        self.dens_log = []
        self.rule_log = []
        self.top = None
        self.active = False
        D = sys.modules["dump_rules"]
        # -- to_dense of every class that defines one, and Dense.__init__
        self._orig = []
        classes = [LinearOperator] + D.all_subclasses(LinearOperator)
        probe = self
        for c in classes:
            if "to_dense" in vars(c):
                orig = vars(c)["to_dense"]

                def patched(self_, _orig=orig, _c=c):
                    if probe.active:
                        probe.dens_log.append((f"{type(self_).__name__.split('[')[0]}.to_dense", tuple(int(x) for x in self_.shape)))
                    return _orig(self_)
                self._orig.append((c, "to_dense", orig))
                setattr(c, "to_dense", patched)
        orig_init = Dense.__init__

        def dense_init(self_, A, _orig=orig_init):
            if probe.active and hasattr(A, "shape"):
                probe.dens_log.append(("Dense(array)", tuple(int(x) for x in A.shape)))
            return _orig(self_, A)
        self._orig.append((Dense, "__init__", orig_init))
        Dense.__init__ = dense_init
        # -- every registered implementation of the family functions
        self._impls = []
        for name, ent in fam.items():
            f = ent["fn"]["function"]
            for i, s in enumerate(ent["fn"]["live"]):
                impl = s.implementation

                def logged(*args, _impl=impl, _name=name, _i=i, _pos=ent["opPos"], **kw):
                    if probe.active and len(args) > _pos and args[_pos] is probe.top:
                        probe.rule_log.append((_name, _i, args))
                    return _impl(*args, **kw)
                logged.__name__ = getattr(impl, "__name__", name)
                self._impls.append((s, impl))
                s.implementation = logged
            f._cache.clear()

    def restore(self):
        for c, attr, orig in self._orig:
            setattr(c, attr, orig)
        for s, impl in self._impls:
            s.implementation = impl
        for ent in self.fam.values():
            ent["fn"]["function"]._cache.clear()

    def begin(self, top):
        self.dens_log, self.rule_log, self.top, self.active = [], [], top, True

    def end(self):
        self.active = False
        self.top = None


def class_id(m, v):
    """class id of a runtime value; other parametrisations of a @parametric kind are mapped to the
    representative one of the class table (they have the same superclasses among the hints)"""
    c = type(v)
    if c in m.cid:
        return m.cid[c]
    for k in m.kinds:
        if k["parametric"] and isinstance(v, k["hint"]):
            return m.cid[k["cls"]]
    for base in c.__mro__[1:]:
        if base in m.cid:
            return m.cid[base]
    return None


def chain_check(T, m, S, fam, rule_log):
    """the rules entered on the operator itself vs the model: -> (list of problems, chain text)"""
    D = sys.modules["dump_rules"]
    import plum
    problems, text = [], []
    for k, (name, i, args) in enumerate(rule_log):
        ent = fam[name]
        fn = ent["fn"]
        ids = []
        for v in args:
            ci = class_id(m, v)
            if ci is None:
                problems.append(f"{name}: argument class {type(v)} outside the class table")
                return problems, text
            ids.append(ci)
        bits = 0
        for c in fn["conds"]:
            s = fn["live"][c["sig"]]
            ok = len(s.types) == len(args) and all(plum._is_bearable(v, t) for v, t in zip(args, s.types))
            if ok and s.condition(*args):
                bits |= 1 << fn["sigs"][c["sig"]]["cond"]
        mir = D.mirror_resolve(m, fn, ids, bits)
        rule = ent["rules"][i]
        text.append(f"{name}#{i} [{rule.cls}] @ {rule.file}:{rule.line}")
        if mir != ("U", i):
            problems.append(f"{name}{tuple(ids)}|{bits}: the live dispatcher entered rule {i}, the resolver model says {mir}")
        last = k == len(rule_log) - 1
        if rule.cls == "structural":
            if not last:
                problems.append(f"{name}#{i} is classified structural but the operator itself was passed on to {rule_log[k + 1][0]}")
        elif rule.cls == "forwarder":
            if last:
                continue  # a branch that does not forward (pow with integer exponent, …) — memory decides
            nname, _ni, nargs = rule_log[k + 1]
            nids = [class_id(m, v) for v in nargs]
            fws = [fw for fw in ent["fwds"] if fw["sig"] == i and fw["target"] == nname]
            tups = []
            for fw in fws:
                tups += T.fwd_tups(ids, fw) or []
            if not fws or (tups and nids not in tups):
                problems.append(f"{name}#{i} forwards to {nname}{tuple(nids)}; the AST analysis predicts "
                                f"{[(fw['target'], T.fwd_tups(ids, fw)) for fw in ent['fwds'] if fw['sig'] == i]}")
        else:
            problems.append(f"generic rule {name}#{i} @ {rule.file}:{rule.line} entered on the structured operator")
    return problems, text


def measure(probe, thunk, top):
    probe.begin(top)
    tracemalloc.reset_peak()
    c0, _ = tracemalloc.get_traced_memory()
    t0 = time.perf_counter()
    err = None
    out = None
    try:
        out = thunk()
    except Exception as ex:  # noqa: BLE001
        err = f"{type(ex).__name__}: {str(ex)[:200]}"
    wall = time.perf_counter() - t0
    _c1, peak = tracemalloc.get_traced_memory()
    probe.end()
    return {"peak": max(peak - c0, 0), "wall": wall, "err": err, "out": out,
            "dens": list(probe.dens_log), "rules": list(probe.rule_log)}


def real_leaf_storage(A):
    """Σ dense sizes of the Dense leaves of the REAL operator"""
    from cola.ops import Dense
    if isinstance(A, Dense):
        return int(A.A.size)
    tot = 0
    for M in getattr(A, "Ms", ()):
        tot += real_leaf_storage(M)
    return tot


def lean_models(cases):
    import oracle
    return oracle.run_driver(cases, nproc=min(4, max(1, len(cases) // 8)), driver="DriverC19.lean")


def judge(z, cname, call, pres, res, lean, n, b):
    """-> (status, detail): status ∈ ok | violation | error"""
    import numpy as np
    out = res["out"]
    itemsize = 8
    if out is not None and hasattr(out, "dtype"):
        itemsize = max(8, int(np.dtype(out.dtype).itemsize))
    bound_entries = (lean["rows"] + lean["cols"]) * b + lean["leaf"]   # right-hand side of C19_matmat_rows_cols
    bound_bytes = SLACK * itemsize * bound_entries + PY_ALLOWANCE
    big = [d for d in res["dens"] if d[1][0] * (d[1][1] if len(d[1]) > 1 else 1) * 4 >= n * n]
    detail = {"peak_bytes": res["peak"], "bound_bytes": bound_bytes, "bound_entries": bound_entries, "itemsize": itemsize,
              "ratio_peak_to_model": round(res["peak"] / (itemsize * bound_entries), 3),
              "dense_n2_bytes": n * n * itemsize, "wall_ms": round(res["wall"] * 1e3, 2),
              "densified": [[w, list(s)] for w, s in res["dens"]][:12]}
    if res["err"]:
        detail["error"] = res["err"]
        return "error", detail
    if big:
        detail["densified_shape"] = list(big[0][1])
        detail["why"] = f"{big[0][0]} of shape {big[0][1]} (≥ n²/4 entries, n = {n}) during a call that has a structural rule"
        return "violation", detail
    if res["peak"] > bound_bytes:
        detail["why"] = (f"peak additional memory {res['peak']} B exceeds {SLACK} × itemsize × ((rows + cols)·b + leaf storage) + allowance = {bound_bytes} B "
                         f"(n = {n}, b = {b}, leaf storage = {lean['leaf']}; a dense n × n array has {n * n * itemsize} B)")
        return "violation", detail
    return "ok", detail


# ------------------------------------------------------------------------------------------
def run_one(ctx, T, m, S, fam, probe, CT, z, cname, pres, lean_by_b, bld, stats, warm=True):
    import numpy as np
    e = z["expr"]
    call = CT[cname]
    n, b = z["n"], call["b"]
    alg_f = dict(call["algs"](z))[pres]
    A = z.get("_A")
    if A is None:
        A = z["_A"] = bld.build(e)
        z["_V"] = np.random.default_rng([bld.seed, 77]).standard_normal((n, 3))
    if warm and not z.get("_warm", {}).get((cname, pres)):
        te = tiny(e)
        tA = z.get("_tA")
        if tA is None:
            tA = z["_tA"] = bld.build(te, "tiny")
            z["_tV"] = np.ones((size_of(te), 3))
        try:
            call["run"](tA, alg_f() if alg_f else None, z["_tV"])
        except Exception:  # noqa: BLE001  (the warm-up result is irrelevant)
            pass
        z.setdefault("_warm", {})[(cname, pres)] = True
    V = z["_V"]                      # (n, 3); calls with b = 1 use its first column
    if cname.startswith(("A @ X", "X @ A")):
        V = np.ascontiguousarray(z["_V"][:, :b])
    alg = alg_f() if alg_f else None
    res = measure(probe, lambda: call["run"](A, alg, V), A)
    lean = lean_by_b[b]
    status, detail = judge(z, cname, call, pres, res, lean, n, b)
    problems, chain = ([], [])
    if call["fn"] is not None:
        problems, chain = chain_check(T, m, S, fam, res["rules"])
    rec = {"operator": show(e), "expr": e, "n": n, "call": cname, "alg": pres, "b": b, "status": status,
           "chain": chain, **detail}
    # model-side consistency (not failing inputs by themselves)
    model_issues = []
    if call["fn"] is None and cname.startswith("A @"):
        tot = sum(lean["allocs"]) * detail["itemsize"] + PY_ALLOWANCE + NUMPY_BUFFERS
        rec["model_total_bytes"] = tot
        if res["peak"] > tot:
            model_issues.append(f"measured peak {res['peak']} B exceeds the model's TOTAL allocation {tot} B: `allocs` misses an allocation")
    if call["fn"] is not None:
        rl = lean["rules"][call["fn"]]
        if not rl["has"]:
            model_issues.append(f"rule skeleton: hasRule {call['fn']} is false for this operator, the harness table schedules it as structural")
        lim = max([d[0] * d[1] for d in rl["dens"]] + [n * b] + [x * x for x in leaf_sizes(e)])
        for w, s in res["dens"]:
            sz = s[0] * (s[1] if len(s) > 1 else 1)
            if sz > lim:
                model_issues.append(f"{w} of shape {s} is larger than anything the rule skeleton `dens {call['fn']}` lists ({rl['dens']})")
                break
    model_issues += problems
    rec["model_issues"] = model_issues
    stats["evaluations"] += 1
    stats["distinct"].add((skeleton(e), cname, pres))
    if n >= 256:
        stats["nontrivial"].add((skeleton(e), cname, pres))
    return rec


def leaf_sizes(e):
    t = e[0]
    if t == "dense":
        return [e[1]]
    if t in ("diag", "eye", "scalar"):
        return []
    if t == "bdiag":
        return [s for x in e[1] for s in leaf_sizes(x)]
    if t == "smul":
        return leaf_sizes(e[2])
    return [s for x in e[1:] for s in leaf_sizes(x)]


def replay_payload(rec):
    return {k: rec[k] for k in ("operator", "expr", "n", "call", "alg", "b", "peak_bytes", "bound_bytes", "dense_n2_bytes",
                                "densified", "chain", "why", "densified_shape", "error", "model_issues") if k in rec}


def run(ctx):
    t0 = time.time()
    broken = []
    # (a) translator on the current working tree, in a fresh interpreter
    rc, so, se = common.sh(["/venv/bin/python", TRANSLATOR, "--quiet"], cwd=common.ROOT, timeout=900)
    if rc != 0:
        common.violation(ctx, {"broken": "translator dump_structural.py failed on the current tree: the rule classification cannot be regenerated",
                               "detail": (so + se)[-3000:]}, no_input=True)
        common.write_evidence(ctx, None, {"evaluations": 0, "distinct_nontrivial": 0, "broken": [{"stage": "translator", "detail": (so + se)[-3000:]}]})
        return
    tsum = json.loads(so.strip().split("\n")[-1])
    t_translate = time.time() - t0
    # (b) Lean gate
    gate, gate_err = None, None
    if not ctx.replay:
        try:
            gate = common.lean_gate(ctx, MODULE)
        except common.LeanGateError as ex:
            gate_err = str(ex)
            rc, out = common.lake_build([MODULE])
            if rc == 0 and "forbidden tokens" not in gate_err and "leanchecker" not in gate_err and "does not elaborate" not in gate_err:
                raise RuntimeError("the Lean library does not build outside the C19 modules (machinery failure, not a C19 result):\n" + gate_err[-2000:])
            broken.append({"stage": "lean gate", "detail": gate_err[-3000:], "translator_failing_cases": tsum.get("failing", [])[:10]})
    t_gate = time.time() - t0 - t_translate
    # (c) runtime tie
    d = os.path.dirname(TRANSLATOR)
    if d not in sys.path:
        sys.path.insert(0, d)
    T = importlib.import_module("dump_structural")
    m, S, fam = T.analyse()
    import numpy as np  # noqa: F401
    CT = call_table()
    bld = Builder(ctx.seed)
    rc, out = common.lake_build(["ColaVerif.Model.RuleSkeleton"])
    if rc != 0:
        raise RuntimeError("Model/RuleSkeleton.lean (needed by DriverC19.lean) does not build:\n" + out[-2000:])
    tracemalloc.start()
    probe = Probe(T, m, fam)
    stats = {"evaluations": 0, "distinct": set(), "nontrivial": set()}
    records, reported = [], 0
    try:
        if ctx.replay:
            rp = json.load(open(ctx.replay))
            if "expr" not in rp:
                print(json.dumps({"replayed": None, "note": "replay file names no input (broken gate / correspondence)"}))
                return
            e = to_tuple(rp["expr"])
            bld = Builder(rp.get("seed", ctx.seed))
            z = {"expr": e, "flags": set(rp.get("flags", [])), "n": size_of(e)}
            lean = lean_models([{"id": b, "op": shape_tree(e), "b": b} for b in (1, 3)])
            rec = run_one(ctx, T, m, S, fam, probe, CT, z, rp["call"], rp["alg"], lean, bld, stats)
            print(json.dumps({"replayed": f"{rp['call']} [{rp['alg']}] on {show(e)}", "status": rec["status"],
                              "peak_bytes": rec["peak_bytes"], "bound_bytes": rec["bound_bytes"], "why": rec.get("why"),
                              "densified": rec["densified"][:4], "chain": rec["chain"]}))
            if rec["status"] == "violation":
                common.violation(ctx, dict(replay_payload(rec), flags=sorted(z["flags"]), replay_of=ctx.replay))
            return
        Z = zoo(ctx)
        if ctx.thorough:   # two more draws of the sizes
            Z += zoo(ctx, 1) + zoo(ctx, 2)
            Z.sort(key=lambda z: z["n"])
        cases = []
        for zi, z in enumerate(Z):
            for b in (1, 3):
                cases.append({"id": zi * 10 + b, "op": shape_tree(z["expr"]), "b": b})
        lean_all = lean_models(cases)
        t_lean = time.time() - t0 - t_translate - t_gate
        for zi, z in enumerate(Z):
            if reported >= MAX_REPORTS:
                break   # enough failing inputs; a densifying tree is slow to run through
            lean = {b: lean_all[zi * 10 + b] for b in (1, 3)}
            e = z["expr"]
            gc.collect()
            A = z["_A"] = bld.build(e)
            z["_V"] = np.random.default_rng([bld.seed, 77]).standard_normal((z["n"], 3))
            # the Lean shape functions against the real operator
            l1 = lean[1]
            shape_issues = []
            if not (l1["inScope"] and l1["wf"] and l1["square"]):
                shape_issues.append(f"Lean: inScope/wf/squareLeaves = {l1['inScope']}/{l1['wf']}/{l1['square']}")
            if (l1["rows"], l1["cols"]) != tuple(int(x) for x in A.shape):
                shape_issues.append(f"Lean rows × cols {l1['rows']} × {l1['cols']} vs real shape {A.shape}")
            if not (l1["leaf"] == real_leaf_storage(A) == leaf_storage(e)):
                shape_issues.append(f"Lean leafStorage {l1['leaf']} vs real Σ dense leaves {real_leaf_storage(A)} vs expression {leaf_storage(e)}")
            for b in (1, 3):
                if max(lean[b]["allocs"]) > lean[b]["rows"] * b + lean[b]["leaf"]:
                    shape_issues.append(f"allocs {lean[b]['allocs']} exceeds rows·b + leaf — contradicts theorem C19_matmat")
            if shape_issues:
                broken.append({"stage": "Lean shape model vs real operator", "operator": show(e), "issues": shape_issues})
            for cname, call in CT.items():
                if call["flag"] not in z["flags"]:
                    continue
                for pres, _f in call["algs"](z):
                    if reported >= MAX_REPORTS:
                        break
                    rec = run_one(ctx, T, m, S, fam, probe, CT, z, cname, pres, lean, bld, stats)
                    rec["flags"] = sorted(z["flags"])
                    records.append({k: v for k, v in rec.items() if k != "expr"} | {"expr": e})
                    if rec["status"] == "violation":
                        common.violation(ctx, dict(replay_payload(rec), flags=sorted(z["flags"])))
                        reported += 1
            for k in ("_A", "_V", "_tA", "_tV"):
                z.pop(k, None)
    finally:
        probe.restore()
        tracemalloc.stop()
    t_run = time.time() - t0 - t_translate - t_gate
    errors = [r for r in records if r["status"] == "error"]
    viol = [r for r in records if r["status"] == "violation"]
    issues = [r for r in records if r["model_issues"]]
    if errors:
        broken.append({"stage": "public call raised", "count": len(errors),
                       "first": [{"operator": r["operator"], "call": r["call"], "alg": r["alg"], "error": r["error"]} for r in errors[:6]]})
    if issues:
        broken.append({"stage": "model vs running code (rule chain / allocs total / rule skeleton)", "count": len(issues),
                       "first": [{"operator": r["operator"], "call": r["call"], "alg": r["alg"], "issues": r["model_issues"][:3]} for r in issues[:6]]})
    if tsum.get("n_failing"):
        broken.append({"stage": "translator: expected lattice cases that do not reach a structural rule", "count": tsum["n_failing"],
                       "first": tsum["failing"][:6]})
    if broken and not viol:
        common.violation(ctx, {"broken": [b["stage"] for b in broken], "detail": broken}, no_input=True)
    # (d) evidence
    ok = [r for r in records if r["status"] == "ok"]
    ratios = sorted(r["ratio_peak_to_model"] for r in ok)
    by_call = {}
    for r in ok:
        by_call.setdefault(r["call"], []).append(r["ratio_peak_to_model"])
    samples = []
    for r in sorted(ok, key=lambda r: -r["ratio_peak_to_model"])[:4] + ok[::max(1, len(ok) // 8)][:8]:
        samples.append({k: r[k] for k in ("operator", "n", "call", "alg", "b", "peak_bytes", "bound_bytes", "dense_n2_bytes",
                                          "ratio_peak_to_model", "wall_ms", "chain", "densified")})
    cov = {
        "evaluations": stats["evaluations"],
        "distinct_nontrivial": len(stats["nontrivial"]),
        "distinct": len(stats["distinct"]),
        "rule": ("distinct = (operator structure without sizes, public call, algorithm presence) triples measured; non-trivial = the "
                 "operator has n ≥ 256 (all have n² ≥ 1000 × factor storage, checked when the zoo is built): a dense n × n "
                 "materialisation (n² entries) is far outside the judged bound 8 × itemsize × (2·n·b + leaf storage) + 64 KiB — the measured factor is reported as dense_over_bound_min"),
        "operators": [{"operator": show(z["expr"]), "n": z["n"], "factor_storage": z["factor_storage"], "n2_over_storage": round(z["ratio"])}
                      for z in (Z if not ctx.replay else [])],
        "calls": sorted(CT),
        "peak_over_model_entries": {"max": ratios[-1] if ratios else None, "median": ratios[len(ratios) // 2] if ratios else None,
                                    "judged_limit": SLACK},
        "max_ratio_by_call": {k: max(v) for k, v in sorted(by_call.items())},
        "dense_over_bound_min": round(min((r["dense_n2_bytes"] / r["bound_bytes"] for r in records), default=0), 1),
        "stopped_early_after_violations": bool(records) and len(viol) >= MAX_REPORTS,
        "violations_found": len(viol), "errors": len(errors), "model_issues": len(issues),
        "lattice": {k: tsum[k] for k in ("functions", "cases", "expected", "structural_rules", "forwarding_rules", "generic_rules")},
        "samples": samples,
        "wall_time_ms_total_calls": round(sum(r["wall_ms"] for r in records), 1),
        "timing_s": {"translator": round(t_translate, 1), "lean_gate": round(t_gate, 1), "runtime_tie": round(t_run, 1)},
        "model_bound_source": "rows, leafStorage, allocs, dens computed by the Lean definitions (lake env lean --run DriverC19.lean) on the shape tree of every operator",
        "trusted_base_extra": [
            "harness/translators/dump_structural.py: AST classification of the rules (attribute whitelist ALLOWED_ATTRS, FAMILY, STRUCTURED are part of the statement); checked against the running code by the rule-chain log",
            "tracemalloc reports numpy's data buffers (numpy registers them in its tracemalloc domain); LAPACK work space is not traced",
            "NumPy copy/view semantics assumed in Model/Cost.lean (reshape of a moved view copies, astype copies, += in place), covered by 'Σ allocs ≥ measured peak'",
        ],
    }
    if broken:
        cov["broken"] = broken
    common.write_evidence(ctx, gate, cov, assumptions=[
        "X @ A is judged only where cola's own code is matrix-free on the NumPy backend: operators with an explicit _rmatmat (Dense, Diagonal, Sum, Product of those) and SelfAdjoint-annotated operators (conjugation shortcut through _matmat); the default _rmatmat of the other kinds goes through xnp.linear_transpose, which on this image is the harness shim (f(I)ᵀ @ X), not cola code",
        "the forwarding analysis looks at the operator argument only: what a forwarding rule does with the RESULT of the callee is covered by the runtime tie, not by the dispatch-level theorem",
        "pow is exercised with non-integer exponents (sqrt, isqrt, pow(·, 0.5)); integer exponents are lazy products / inv",
        "peak memory is judged with the fixed slack 8 (simultaneously live arrays) and a 64 KiB allowance for Python objects; IEEE values of the results are not judged here (C06–C11)",
    ])
    print(json.dumps({"evaluations": stats["evaluations"], "distinct_nontrivial": len(stats["nontrivial"]), "violations": len(viol),
                      "errors": len(errors), "model_issues": len(issues), "max_ratio": ratios[-1] if ratios else None,
                      "gate": (gate or {}).get("obligations"), "gate_broken": gate_err is not None, "timing_s": cov["timing_s"]}))


def to_tuple(e):
    if isinstance(e, list):
        if e and isinstance(e[0], str):
            if e[0] == "bdiag":
                return ("bdiag", [to_tuple(x) for x in e[1]], list(e[2]))
            return tuple(to_tuple(x) if isinstance(x, list) else x for x in e)
        return [to_tuple(x) for x in e]
    return e
