"""C12 — CG returns the Krylov-optimal iterate and honours its stopping contract.

Tie between the Lean code model (lean/ColaVerif/Model/CG.lean, run by lean/DriverCG.lean over IEEE
doubles) and the real `cola.linalg.inverse.cg.cg`, plus property checks on the real code alone
(dense Krylov-optimum oracle, cap, stopping rule, zero columns, scaling, product count).

Tolerance rule (documented in the evidence as `compare: "tol"`):
  * doubles travel as bit patterns, so both sides start from identical inputs;
  * the model accumulates sums left to right, NumPy/BLAS in another order, so the two runs differ by
    rounding, which the recurrence amplifies (strongly after a super-linear collapse of the residual
    on clustered spectra).  Iterates are compared column-wise in the 2-norm,
    `|x_real - x_model| <= T * max(|x_real|, |x_model|, |x0|)` with
    `T = max(RT, 300 * d_self)`, `RT = 1e-8 * max(1, kappa(A) * kappa(P) / 1e3)` (the rule asked for:
    1e-8 at kappa <= 1e3) and `d_self` = the deviation MEASURED on the same input and the same k
    between the real run and four rounding-equivalent real runs (product summed in reverse order;
    three draws of "entries of A and P moved by one ulp"), maximised over the columns and over steps
    k, k+1, k+2 (the amplification grows with k).  d_self is what double rounding permits on this input; a defect of
    the code is present in all the real runs and does not enlarge it;
  * tracked residuals (`info['errors']`) are compared entry-wise with the relative tolerance
    `max(10 * RT, 300 * d_self(entry))`; entries below `1e-10 * e0` (e0 = first tracked residual) are
    rounding noise and only required to be `<= 1e-6 * e0` on both sides;
  * a difference in the step count is accepted as a knife edge iff the rounding-equivalent real runs
    disagree among themselves at that max_iters, or at the disputed step a column's residual norm is
    within a relative 1e-6 of its effective tolerance, or the tracked residual is below the noise floor;
  * the dense Krylov-optimum oracle compares in the A-norm relative to max(|x* - x0|_A, |x*|_A) with
    tolerance `max(1e-6 * max(1, kappa_eff / 10), 300 * d_self)`, for every step when
    kappa_eff <= 100 and for steps k <= 5 when 100 < kappa_eff <= 1e4 (floating-point CG loses
    orthogonality: the measured deviation from the exact-arithmetic optimum grows ~30x per step at
    kappa_eff >= 1e3 and reaches 1e-3 at step 7-9 on the UNCHANGED code; the exact statement for all
    k is the Lean theorem C12_optimal_any, with C12_optimal_mask / C12_optimal_single for k' = k).

Exact reference (round 2).  In exact arithmetic the model's iterate IS the Krylov-optimal iterate
(C12_optimal_mask / C12_optimal_single: `xOut = (cgSeq ... k).x`; C12_optimal_any for a column frozen by the
has_converged mask): the Lean driver therefore also runs textbook CG (`cgExact`, the
recurrence `cgSeq` of the theorems) over Q[i] on the bit-exact inputs (doubles are rationals) and returns
the exact iterates x_k rounded to doubles.  The REAL float iterate (and the float run of the model) is
compared with it in the A-norm, relative to max(|x* - x0|_A, |x*|_A), against the bound
    B_k = C * u * (n + 2) * sqrt(kappa) * (1 + sqrt(kappa))^k,   u = 2^-53, C = 64,
kappa = lambda_max / lambda_min of P A.  Rationale: one step of the recurrence commits a relative
rounding error <= c * u * n * sqrt(kappa) in the energy norm, and a perturbation of the direction /
residual pair is propagated by the next step with a factor at most 1 + sqrt(kappa) (|alpha_k| |A| and
beta_k are bounded by kappa-dependent constants); this is a worst-case amplification MODEL, not a
theorem: no forward bound without a factor growing geometrically in k exists (floating-point CG loses
orthogonality; the deviation from the exact iterate is observed to grow by up to ~sqrt(kappa) per step).
It was calibrated on 4 899 (case, column, k) triples of this generator: worst observed deviation / B_k
with C = 1 was 2.0 (at n = 1, k = 0), so C = 64 leaves a factor 32.  A step is DECIDABLE when
B_k <= 1e-4; only decidable steps are compared with the exact reference (elsewhere the bound says
nothing), the number of undecidable steps is reported.  The exact side costs O(k^3 n^2) big-number
operations and is limited to n <= 12 (16 in thorough) and to a per-case operation budget; the float side
(real vs float model, model-free checks) runs up to n = 200, kappa = 1e6 in thorough.
"""
import json
import math
import os
import random
import subprocess
import tempfile
import time

import numpy as np

import common
from props import c12_history
import shim  # noqa: F401
import cola
from cola.linalg.inverse.cg import CG
from cola.linalg.inverse.cg import cg as real_cg

MODULE = "ColaVerif.Properties.C12"
TOLS = [1e-12, 1e-10, 1e-8, 1e-6, 1e-4, 1e-2, 1e-1]
KAPPAS = [1.0, 10.0, 1e3]
NOISE = 1e-10      # floor (relative to the first tracked residual) below which values are noise
KNIFE = 1e-6       # relative window around the effective tolerance treated as a knife edge
SELF_FACTOR = 300  # allowed deviation = SELF_FACTOR * measured rounding sensitivity (never below RT)
U_ROUND = 2.0 ** -53     # unit round-off of binary64
C_EXACT = 64.0           # constant of the bound B_k (see the module docstring)
DECIDE = 1e-4            # a step is decidable against the exact reference iff B_k <= DECIDE
EXACT_BUDGET = 60000     # per-case budget of the exact side: m * [2 if dense P] * [4 if complex] * n^2 * k^3
EXACT_NMAX = 16

# no provisional findings: `tiny-operator-scale` (found in round 2) was repaired in /repo by 1a4d949 (do_safe_div:
# exact zero test); the fixed probe `tiny_scale_probe` stays as a regression check
# no provisional findings.  `nystrom-real-U` (round 5: the Nystrom preconditioners applied `U.T` instead of `U.H`, so for complex
# Hermitian PD A the preconditioner was not Hermitian) was repaired in /repo by 67a8740; the stream `nystrom` now expects
# real = code = spec on complex inputs too (Lean regression witness: C12_nystrom_transpose_regression)
PROVISIONAL_KNOWN = {}


# ----------------------------------------------------------------------------- exact transport
def fbits(x):
    return int(np.float64(x).view(np.uint64))


def unbits(i):
    return float(np.uint64(i).view(np.float64))


def enc(a):
    """ndarray (real or complex, any rank) -> nested lists of [reBits, imBits]"""
    a = np.asarray(a)
    if a.ndim == 0:
        z = complex(a)
        return [fbits(z.real), fbits(z.imag)]
    return [enc(x) for x in a]


def dec(j, cplx):
    a = np.array(j, dtype=np.uint64)
    re = a[..., 0].view(np.float64)
    if not cplx:
        return re.copy()
    return re + 1j * a[..., 1].view(np.float64)


# ----------------------------------------------------------------------------- case generation
def spectrum(rng, n, kappa):
    kind = rng.choice(["geom", "lin", "cluster", "repeated", "two"])
    if n == 1 or kappa == 1.0:
        lam = np.ones(n)
        kind = "flat"
    elif kind == "geom":
        lam = kappa ** (np.arange(n) / (n - 1))
    elif kind == "lin":
        lam = 1 + (kappa - 1) * np.arange(n) / (n - 1)
    elif kind == "cluster":
        nc = rng.randint(2, min(3, n))
        centres = kappa ** (np.arange(nc) / (nc - 1))
        lam = np.array([centres[i % nc] * (1 + 1e-3 * rng.uniform(-1, 1)) for i in range(n)])
        lam[0], lam[nc - 1] = 1.0, kappa
    elif kind == "repeated":
        nd = rng.randint(2, min(4, n))
        vals = kappa ** (np.arange(nd) / (nd - 1))
        lam = np.array([vals[i % nd] for i in range(n)])
    else:
        lam = np.array([1.0] * (n - n // 2) + [kappa] * (n // 2))
    return kind, np.sort(lam)


def unitary(nrng, n, cplx):
    g = nrng.normal(size=(n, n))
    if cplx:
        g = g + 1j * nrng.normal(size=(n, n))
    q, r = np.linalg.qr(g)
    return q


def hpd(nrng, lam, cplx):
    q = unitary(nrng, len(lam), cplx)
    a = (q * lam) @ q.conj().T
    return (a + a.conj().T) / 2


def gen_case(rng, idx, nmax):
    nrng = np.random.default_rng(rng.getrandbits(63))
    cplx = rng.random() < 0.4
    n = rng.choice(list(range(1, nmax + 1)) + [2, 3, nmax])
    kappa = rng.choice(KAPPAS + [10.0, 1e3])
    kind, lam = spectrum(rng, n, kappa)
    scale = 10.0 ** rng.choice([0, 0, -2, 2, 1])
    A = hpd(nrng, lam * scale, cplx)
    m = rng.choice([1, 1, 2, 3, 4])
    B = nrng.normal(size=(n, m))
    if cplx:
        B = B + 1j * nrng.normal(size=(n, m))
    zero_cols = []
    for j in range(m):
        u = rng.random()
        if u < 0.12:
            B[:, j] = 0
            zero_cols.append(j)
        else:
            B[:, j] *= 10.0 ** (rng.uniform(-6, 6) if u > 0.24 else -rng.uniform(45, 140))   # 12 decades; some tiny columns
            if u > (0.85 if m == 1 else 0.7) and n > 1:       # few-eigenvector right-hand side: low grade
                w, V = np.linalg.eigh(A)
                sel = rng.sample(range(n), rng.randint(1, min(3, n)))
                B[:, j] = (V[:, sel] @ nrng.normal(size=len(sel))) * np.linalg.norm(B[:, j])
    u = rng.random()
    if u < 0.45:
        X0, x0kind = None, "none"
    elif u < 0.9:
        X0 = np.linalg.solve(A, B) + nrng.normal(size=(n, m)) * (np.linalg.norm(B, axis=0, keepdims=True) / scale + (rng.random() < 0.3))
        if cplx:
            X0 = X0 + 0j
        x0kind = "random"
    else:
        X0 = np.linalg.solve(A, B).astype(B.dtype)
        x0kind = "solution"
    u = rng.random()
    kP = 1.0
    if u < 0.4:
        P, pkind = None, "none"
    elif u < 0.7:
        d = 1.0 / np.real(np.diag(A))
        P, pkind = np.diag(d).astype(A.dtype), "jacobi"
        kP = float(d.max() / d.min())
    else:
        kP = rng.choice([1.0, 3.0, 10.0])
        _, mu = spectrum(rng, n, kP)
        P, pkind = hpd(nrng, mu / scale, cplx), "dense"
    tol = rng.choice(TOLS + [1e-12, 1e-10, 1e-8])
    full = rng.random() < 0.5
    max_iters = 2 * n if full else rng.randint(0, 2 * n)
    vector = (m == 1) and rng.random() < 0.5
    return {
        "id": idx, "complex": cplx, "n": n, "m": m, "kappa": kappa, "kappaP": kP, "spec": kind, "pkind": pkind,
        "x0kind": x0kind, "zero_cols": zero_cols, "tol": tol, "max_iters": max_iters, "full": full,
        "vector": vector, "via_inv": rng.random() < 0.25,
        "A": enc(A), "b": enc(B.T), "x0": None if X0 is None else enc(X0.T), "P": None if P is None else enc(P),
    }


def gen_large(rng, idx):
    """thorough only: sizes 50..200 and condition numbers up to 1e6 (the float side; the exact side stops at n = 16).
    The cap sweep covers max_iters = 0..K with K <= 24 (every cap: real run, four rounding-equivalent runs, model trace);
    one further real run to convergence (max_iters = 2n) is judged by the model-free statements."""
    nrng = np.random.default_rng(rng.getrandbits(63))
    cplx = rng.random() < 0.3
    n = rng.choice([50, 50, 100, 100, 200])
    kappa = rng.choice([1e3, 1e4, 1e5, 1e6])
    kind, lam = spectrum(rng, n, kappa)
    scale = 10.0 ** rng.choice([0, 0, -2, 2])
    A = hpd(nrng, lam * scale, cplx)
    m = rng.choice([1, 1, 2, 3])
    B = nrng.normal(size=(n, m))
    if cplx:
        B = B + 1j * nrng.normal(size=(n, m))
    zero_cols = []
    for j in range(m):
        u = rng.random()
        if u < 0.1 and m > 1:
            B[:, j] = 0
            zero_cols.append(j)
        else:
            B[:, j] *= 10.0 ** rng.uniform(-6, 6)
    if rng.random() < 0.6:
        X0, x0kind = None, "none"
    else:
        X0 = nrng.normal(size=(n, m)) * (np.linalg.norm(B, axis=0, keepdims=True) / scale)
        X0 = X0 + 0j if cplx else X0
        x0kind = "random"
    kP = 1.0
    if rng.random() < 0.5:
        P, pkind = None, "none"
    else:
        d = 1.0 / np.real(np.diag(A))
        P, pkind = np.diag(d).astype(A.dtype), "jacobi"
        kP = float(d.max() / d.min())
    return {
        "id": idx, "complex": cplx, "n": n, "m": m, "kappa": kappa, "kappaP": kP, "spec": kind, "pkind": pkind,
        "x0kind": x0kind, "zero_cols": zero_cols, "tol": rng.choice(TOLS), "max_iters": rng.randint(6, 24), "full": False,
        "vector": (m == 1) and rng.random() < 0.5, "via_inv": False, "long_run": True,
        "A": enc(A), "b": enc(B.T), "x0": None if X0 is None else enc(X0.T), "P": None if P is None else enc(P),
    }


# ----------------------------------------------------------------------------- the real code
class Real:
    """the arrays of a case and runs of the real `cg` on them"""

    def __init__(self, c):
        self.c = c
        cp = c["complex"]
        self.A = dec(c["A"], cp)
        self.B = dec(c["b"], cp).T.copy()
        self.X0 = None if c["x0"] is None else dec(c["x0"], cp).T.copy()
        self.P = None if c["P"] is None else dec(c["P"], cp)
        self.n, self.m = self.B.shape
        self.dtype = self.A.dtype
        # rounding-equivalent variants of the same system (used only to MEASURE what double rounding
        # permits on this input): entries of A and P moved by one ulp (Hermitian symmetry kept)
        prng = np.random.default_rng(12345 + self.n)
        self.A_ulp = {v: self._ulp(self.A, prng) for v in ("ulp", "ulp2", "ulp3")}
        self.P_ulp = {v: (None if self.P is None else self._ulp(self.P, prng)) for v in ("ulp", "ulp2", "ulp3")}

    @staticmethod
    def _ulp(M, prng):
        d = prng.choice([-1.0, 0.0, 1.0], size=M.shape) * 2.0 ** -52
        d = np.triu(d) + np.triu(d, 1).T
        return M * (1.0 + d)

    def pop(self, variant=None):
        if self.P is None:
            return None
        P = self.P_ulp[variant] if variant in self.P_ulp else self.P
        if self.c["pkind"] == "jacobi":
            return cola.ops.Diagonal(np.diag(P).copy())
        return cola.ops.Dense(P)

    def run(self, max_iters, B=None, X0="same", tol=None, counting=False, via_inv=False, variant=None):
        B = self.B if B is None else B
        X0 = self.X0 if isinstance(X0, str) else X0
        tol = self.c["tol"] if tol is None else tol
        vec = self.c["vector"] and B.shape[1] == 1
        b = B[:, 0].copy() if vec else B.copy()
        x0 = None if X0 is None else (X0[:, 0].copy() if vec else X0.copy())
        cnt = [0]
        if counting:
            A = self.A

            def mm(X):
                cnt[0] += 1
                return A @ X
            Aop = cola.ops.LinearOperator(self.dtype, (self.n, self.n), matmat=mm)
        elif variant == "rev":     # same product, other summation order
            A = self.A
            Aop = cola.ops.LinearOperator(self.dtype, (self.n, self.n), matmat=lambda X: A[:, ::-1] @ X[::-1])
        elif variant in self.A_ulp:
            Aop = cola.PSD(cola.ops.Dense(self.A_ulp[variant]))
        else:
            Aop = cola.PSD(cola.ops.Dense(self.A))
        if via_inv:
            # IterativeOperatorWInfo reshapes a 1-D operand to (n, 1) before calling the algorithm, so the
            # initial guess stored in CG(...) has to be 2-D (a 1-D x0 is broadcast against the (1, 1) norm
            # row to shape (1, n) and the first product asserts) -- interface wart, outside the statement
            x0 = None if X0 is None else X0.copy()
            Ainv = cola.linalg.inv(Aop, CG(tol=tol, max_iters=max_iters, x0=x0, P=self.pop()))
            x = Ainv @ b
            info = Ainv.info
        else:
            x, info = real_cg(Aop, b, x0, self.pop(variant), tol, max_iters)
        x = np.asarray(x)
        assert x.shape == b.shape, f"shape of the solution {x.shape} vs rhs {b.shape}"
        X = x.reshape(self.n, -1)
        return {"X": X, "iterations": int(info["iterations"]), "errors": np.asarray(info["errors"], dtype=float),
                "nprod": cnt[0]}


# ----------------------------------------------------------------------------- the Lean driver
def exact_plan(c):
    """kappa of P A (float eigenvalues) and the number kx of steps decidable against the exact reference"""
    cp = c["complex"]
    A = dec(c["A"], cp)
    P = None if c["P"] is None else dec(c["P"], cp)
    n = A.shape[0]
    ev = np.real(np.linalg.eigvals(A if P is None else P @ A))
    kap = float(ev.max() / ev.min()) if ev.min() > 0 else math.inf
    plan = {"kappa_eff": kap, "kx": -1}
    if n > EXACT_NMAX or not math.isfinite(kap):
        return plan
    sk = math.sqrt(kap)
    w = c["m"] * (2 if c["pkind"] == "dense" else 1) * (4 if cp else 1) * n * n
    k = 0 if bound_exact(n, sk, 0) <= DECIDE else -1
    while k >= 0 and k + 1 <= c["max_iters"] and bound_exact(n, sk, k + 1) <= DECIDE and w * (k + 1) ** 3 <= EXACT_BUDGET:
        k += 1
    plan["kx"] = k
    return plan


def bound_exact(n, sk, k):
    return C_EXACT * U_ROUND * (n + 2) * sk * (1.0 + sk) ** k


def lean_input(c, max_iters=None, tol=None, exact=False):
    d = {"id": c["id"], "complex": c["complex"], "A": c["A"], "P": c["P"], "b": c["b"], "x0": c["x0"],
         "tol": [fbits(c["tol"] if tol is None else tol), 0], "max_iters": c["max_iters"] if max_iters is None else max_iters}
    if exact:
        plan = c.get("_plan") or exact_plan(c)
        if plan["kx"] >= 0:
            d["exact_steps"] = plan["kx"]
    return d


def run_driver(inputs, nproc=16, timeout=3000):
    if not inputs:
        return {}
    nproc = max(1, min(nproc, len(inputs), os.cpu_count() or 1))
    # balance by cost ~ n^2 * m * max_iters
    def cost(d):
        n2m = len(d["A"]) ** 2 * len(d["b"])
        ex = n2m * (2 if d["P"] is not None else 1) * (4 if d["complex"] else 1) * d.get("exact_steps", 0) ** 3
        return 6 * n2m * (1 + d["max_iters"]) + ex        # float model + exact side (fitted on the quick stream)
    order = sorted(range(len(inputs)), key=lambda i: -cost(inputs[i]))
    chunks = [[] for _ in range(nproc)]
    for r, i in enumerate(order):
        chunks[r % nproc].append(inputs[i])
    procs = []
    for ch in chunks:
        f = tempfile.TemporaryFile(mode="w+")
        for c in ch:
            f.write(json.dumps(c) + "\n")
        f.seek(0)
        p = subprocess.Popen(["lake", "env", "lean", "--run", "DriverCG.lean"], cwd=common.LEAN_DIR, stdin=f,
                             stdout=subprocess.PIPE, stderr=subprocess.PIPE, text=True)
        procs.append((p, f))
    out = {}
    for p, f in procs:
        so, se = p.communicate(timeout=timeout)
        f.close()
        if p.returncode != 0:
            raise RuntimeError(f"lean CG driver failed rc={p.returncode}: {se[-2000:]}")
        for line in so.splitlines():
            line = line.strip()
            if line:
                a = json.loads(line)
                if "error" in a:
                    raise RuntimeError(f"lean CG driver: {a}")
                out[a["id"]] = a
    return out


def lean_decode(ans, cplx):
    def cols(j):
        return dec(j, cplx).T if len(j) and len(j[0]) else np.zeros((0, len(j)))
    tr = [{"X": cols(t["x"]) if "x" in t else None, "res": unbits(t["res"][0])} for t in ans["trace"]]
    ex = None
    if isinstance(ans.get("exact"), list):
        ex = [{"xs": [dec(x, cplx) for x in col["xs"]], "rn2": [unbits(b) for b in col["rn2"]]} for col in ans["exact"]]
    elif isinstance(ans.get("exact"), str):
        raise RuntimeError("lean CG driver, exact side: " + ans["exact"])
    return {"X": cols(ans["x"]), "k": ans["k"], "iterations": ans["iterations"], "exact": ex,
            "errors": np.array([unbits(e[0]) for e in ans["errors"]], dtype=float),
            "tol_eff": np.array([unbits(e[0]) for e in ans["tol_eff"]], dtype=float), "trace": tr,
            "branches": ans.get("branches", {}),
            "col_res": [[unbits(e[0]) for e in row] for row in ans.get("col_res", [])]}


# ----------------------------------------------------------------------------- comparisons
def rt_of(c):
    return 1e-8 * max(1.0, c["kappa"] * c.get("kappaP", 1.0) / 1e3)


def col_devs(Xa, Xb, ref=None):
    """column-wise relative 2-norm deviations (inf where not comparable)"""
    if Xa.shape != Xb.shape:
        return np.full(max(Xa.shape[1] if Xa.ndim == 2 else 1, 1), math.inf)
    out = np.zeros(Xa.shape[1])
    for j in range(Xa.shape[1]):
        s = max(np.linalg.norm(Xa[:, j]), np.linalg.norm(Xb[:, j]), 0.0 if ref is None else np.linalg.norm(ref[:, j]))
        d = np.linalg.norm(Xa[:, j] - Xb[:, j])
        if not np.isfinite(d):
            out[j] = math.inf
        elif s == 0:
            out[j] = 0.0 if d == 0 else math.inf
        else:
            out[j] = d / s
    return out


def cols_close(Xa, Xb, rt, ref=None, allow=None):
    """column-wise 2-norm comparison; returns (ok, worst relative deviation)"""
    dv = col_devs(Xa, Xb, ref)
    lim = rt if allow is None else np.maximum(rt, allow)
    return bool(np.all(dv <= lim)), float(dv.max()) if len(dv) else 0.0


def res_close(a, b, e0, rt, allow=0.0):
    if not (np.isfinite(a) and np.isfinite(b)):
        return False
    floor = NOISE * e0
    if a <= floor or b <= floor:
        return max(a, b) <= 1e-6 * e0 + 1e-300
    return abs(a - b) <= max(10 * rt, allow) * max(a, b)


def rel(a, b):
    m = max(abs(a), abs(b))
    return 0.0 if m == 0 else abs(a - b) / m


def expected_errors(trace_res, s):
    """errors of a run that performs s steps: raw = [e_0..e_s, e_s], first two dropped"""
    raw = list(trace_res[: s + 1]) + [trace_res[s]]
    return raw[2:]


# ----------------------------------------------------------------------------- oracle (model-free)
def krylov_opt(A, M, b, x0, k):
    """argmin of |x* - y|_A over y in x0 + span{(MA)^j M r0, j < k}; returns (y, dim used)"""
    n = len(b)
    r0 = b - A @ x0
    v = r0 if M is None else M @ r0
    V = np.zeros((n, 0), dtype=np.result_type(A.dtype, b.dtype))
    nv0 = np.linalg.norm(v)
    for _ in range(k):
        w = v.copy()
        for _ in range(2):
            w = w - V @ (V.conj().T @ w)
        nw = np.linalg.norm(w)
        if nv0 == 0 or nw <= 1e-9 * np.linalg.norm(v):
            break                    # the Krylov space stopped growing (numerically)
        w = w / nw
        V = np.concatenate([V, w[:, None]], axis=1)
        v = A @ w
        v = v if M is None else M @ v
    if V.shape[1] == 0:
        return x0.copy(), 0
    G = V.conj().T @ A @ V
    cvec = np.linalg.solve(G, V.conj().T @ r0)
    return x0 + V @ cvec, V.shape[1]


def a_norm(A, v):
    return math.sqrt(max(0.0, np.real(np.vdot(v, A @ v))))


class Checker:
    def __init__(self, ctx):
        self.ctx = ctx
        self.stats = {
            "evaluations": 0, "cases": 0, "nontrivial": set(), "n": {}, "kappa": {}, "k": {}, "columns": {}, "pkind": {},
            "field": {}, "x0kind": {}, "colnorm": {}, "stop": {}, "spec": {}, "tol": {}, "knife_edge": 0, "via_inv": 0, "oracle_checked": 0,
            "oracle_skipped": 0, "scale_checked": 0, "zero_cols": 0, "branches": {}, "worst_x": 0.0, "worst_oracle": 0.0,
            "worst_x_ratio": 0.0, "worst_oracle_ratio": 0.0, "iter_compared": 0, "iter_loose": 0, "samples": [],
            "stop_kept_by_degenerate_col": 0, "exact_checked": 0, "exact_model_checked": 0, "exact_undecidable": 0, "exact_kx": {}, "worst_exact": 0.0,
            "worst_exact_ratio": 0.0, "worst_exact_model_ratio": 0.0, "exact_by_kappa": {}, "large_cases": 0, "long_runs": 0,
        }

    def bump(self, key, val, inc=1):
        d = self.stats[key]
        d[str(val)] = d.get(str(val), 0) + inc

    # ---- what double rounding permits on this input (measured on the real code)
    def self_deviation(self, c, R, sweep):
        X0 = np.zeros_like(R.B) if R.X0 is None else R.X0
        K = len(sweep) - 1
        dx = [np.zeros(R.m) for _ in range(K + 1)]
        derr = [np.zeros(len(sweep[k]["errors"])) for k in range(K + 1)]
        unstable = [False] * (K + 1)
        for variant in ("rev", "ulp", "ulp2", "ulp3"):
            for k in range(K + 1):
                rv = R.run(k, variant=variant)
                self.stats["evaluations"] += 1
                if rv["iterations"] != sweep[k]["iterations"]:
                    unstable[k] = True
                    continue
                dx[k] = np.maximum(dx[k], col_devs(rv["X"], sweep[k]["X"], X0))
                derr[k] = np.maximum(derr[k], [rel(a, b) for a, b in zip(rv["errors"], sweep[k]["errors"])])
        # rounding is amplified from step to step: take the sensitivity of the next two steps as well
        # (4 samples of a heavy-tailed quantity; the floor RT is what catches defects)
        # ... and of all columns (same operator, independent draws of the rounding)
        dx2 = [np.full(R.m, float(np.max(np.stack(dx[k:k + 3])))) for k in range(K + 1)]
        eK = derr[K]
        derr2 = []
        for k in range(K + 1):
            d = derr[k].copy()
            for i in range(len(d)):
                hi = [eK[t] for t in (i + 1, i + 2) if t < len(eK)]
                d[i] = max([d[i]] + hi)
            derr2.append(d)
        return {"dx": dx2, "derr": derr2, "unstable": unstable}

    # ---- property checks on the real code alone (no model involved)
    def real_property_checks(self, c, R, sweep, sd=None):
        """sweep: list of real runs for max_iters = 0..K.  Returns list of violated clauses."""
        bad = []
        A, n, m = R.A, R.n, R.m
        kap = c["kappa"] * c.get("kappaP", 1.0)
        X0 = np.zeros_like(R.B) if R.X0 is None else R.X0
        mult = np.linalg.norm(R.B, axis=0)
        # effective tolerance in units of |b|, from the property text: tol * (1 + |r0| / |b|)
        r0n = np.array([np.linalg.norm(R.B[:, j] - A @ X0[:, j]) for j in range(m)])
        tol_abs = c["tol"] * (mult + r0n)
        K = len(sweep) - 1
        final_steps = sweep[K]["iterations"] - 1
        for k, rk in enumerate(sweep):
            s = rk["iterations"] - 1
            self.stats["evaluations"] += 1
            if s > k:
                bad.append({"clause": "cap", "max_iters": k, "steps": s})
            if len(rk["errors"]) != max(s, 0):
                bad.append({"clause": "bookkeeping", "max_iters": k, "steps": s, "len_errors": len(rk["errors"])})
            if k > 0 and s < sweep[k - 1]["iterations"] - 1:
                bad.append({"clause": "bookkeeping", "max_iters": k, "detail": "fewer steps with a larger cap"})
            for j in c["zero_cols"]:
                if np.any(rk["X"][:, j] != 0):
                    bad.append({"clause": "zero", "max_iters": k, "column": j})
        # "stops as soon as, not before" against the TRUE residual of the iterates (slack for rounding).
        # Lean: C12_stop_true_residual (exact arithmetic, any A, P, batch, tol; no guard / mask hypothesis): on exit
        # before the cap every non-zero column has |b - A x| <= tol * |b - A x0| + tol * |b| (= tol_abs below), and
        # before each step some column was strictly above; the link recurrence residual = true residual is
        # C12_residual_true_any (hypothesis b_j != 0 only).
        # PER COLUMN (round 4; formerly one degenerate column switched the two clauses off for the whole batch).
        # A zero column with x0 != 0 ("degenerate", |b| = 0: no relative tolerance) is iterated by the code on the
        # un-normalised system (0, x0) with its own tolerance tol * |A x0| + tol and its output is multiplied by |b| = 0,
        # so its internal residual cannot be read off the returned X.  It enters the SHARED stop test, though.  Exactly:
        #  * "stops-not-before" needs no exception at all: at an exit before the cap EVERY column was below its
        #    tolerance, so a live column above its tolerance is a violation whatever the other columns are;
        #  * "stops-as-soon-as" (all live columns below, yet the loop went on) is explained by a degenerate column only
        #    if THAT column is not yet clearly below ITS tolerance after k steps.  Its internal residual after k steps is
        #    OBSERVED on the real code, not on this batch's output: the column is run ALONE with tol = 0 (the tolerance only
        #    enters the stop test, so the trajectory is the same; the columns of a batch are computed independently) and
        #    max_iters = k; info['errors'][-1] is then the tracked residual |r_k| of that column (scale 1).  An exact-
        #    arithmetic reference (Krylov optimum) is NOT used: at kappa ~ 1e4 and k ~ n floating-point CG lags behind it.
        deg_cols = [j for j in range(m) if mult[j] == 0 and np.any(X0[:, j] != 0)]
        slack = 200 * np.finfo(float).eps * kap * n
        live = [j for j in range(m) if mult[j] > 0]
        deg_cache = {}

        def deg_internal_res(j, k):
            """|r_k| of the degenerate column j as the real code tracks it when the column is run alone (None: not observable)"""
            if (j, k) not in deg_cache:
                if k == 0:
                    val = float(r0n[j])
                else:
                    rj = R.run(k, B=R.B[:, [j]].copy(), X0=X0[:, [j]].copy(), tol=0.0)
                    sj = rj["iterations"] - 1
                    if sj == k and len(rj["errors"]) == k:
                        val = float(rj["errors"][-1])
                    elif sj < k and len(rj["errors"]) == sj:
                        val = 0.0            # tol = 0 and the loop stopped: the residual is exactly zero
                    else:
                        val = None
                deg_cache[(j, k)] = val
            return deg_cache[(j, k)]

        def degenerate_keeps_running(k):
            for j in deg_cols:
                res = deg_internal_res(j, k)
                tol_int = c["tol"] * r0n[j] + c["tol"]          # the code's tolerance for this column (scale = 1)
                if res is None or not (res < tol_int * (1 - 1e-3) - slack * (1.0 + r0n[j])):
                    return j
            return None

        if live:
            for k, rk in enumerate(sweep):
                s = rk["iterations"] - 1
                if s != k:
                    continue
                true_res = np.array([np.linalg.norm(R.B[:, j] - A @ rk["X"][:, j]) for j in range(m)])
                below = all(true_res[j] < tol_abs[j] * (1 - 1e-3) - slack * (mult[j] + r0n[j]) for j in live)
                above = [j for j in live if true_res[j] > tol_abs[j] * (1 + 1e-3) + slack * (mult[j] + r0n[j])]
                if k < final_steps and below:
                    dj = degenerate_keeps_running(k)
                    if dj is None:
                        bad.append({"clause": "stops-as-soon-as", "step": k, "detail": "all columns below their tolerance (degenerate zero "
                                    "columns: by their own run of the real code with tol = 0) but the iteration went on"})
                    else:
                        self.stats["stop_kept_by_degenerate_col"] += 1
                if k == final_steps and k < K and above:
                    bad.append({"clause": "stops-not-before", "step": k, "columns": above,
                                "detail": "a column is above its tolerance but the iteration stopped before max_iters"})
        # "reports the residual history": entry i of errors is the tracked residual after step i + 2 (the
        # last one after the final step), i.e. mean_j |b_j - A x_j| / |b_j| up to rounding of the recurrence
        # PER COLUMN (round 4; formerly skipped unless every column was live): a live column contributes
        # |b_j - A x_j| / |b_j| (from the returned X), a zero column with x0 = 0 contributes exactly 0 (r = 0 throughout),
        # a degenerate column (b = 0, x0 != 0; scale 1) contributes its tracked |r_k| observed by running it alone (deg_internal_res).
        if live:
            for k, rk in enumerate(sweep):
                s = rk["iterations"] - 1
                if s != k or s < 1 or len(rk["errors"]) != s:
                    continue
                contrib, scales = [], []
                for j in range(m):
                    if mult[j] > 0:
                        contrib.append(np.linalg.norm(R.B[:, j] - A @ rk["X"][:, j]) / mult[j])
                        scales.append((mult[j] + r0n[j]) / mult[j])
                    elif j in deg_cols:
                        res = deg_internal_res(j, k)
                        if res is None:
                            contrib = None
                            break
                        contrib.append(res)
                        scales.append(1.0 + r0n[j])
                    else:
                        contrib.append(0.0)
                        scales.append(0.0)
                if contrib is None:
                    continue
                true_mean = float(np.mean(contrib))
                rep = float(rk["errors"][-1])
                scale_h = float(np.mean(scales))
                if abs(rep - true_mean) > 1e-3 * max(rep, true_mean) + 1e4 * slack * scale_h:
                    bad.append({"clause": "history", "step": k, "reported": rep, "true_mean_relative_residual": true_mean,
                                "degenerate_columns_observed_alone": deg_cols})
                    break
        # Krylov optimum
        if kap <= 1e4:
            for j in range(m):
                if mult[j] == 0:
                    continue
                xs = np.linalg.solve(A, R.B[:, j])
                for k, rk in enumerate(sweep):
                    if rk["iterations"] - 1 != k or (kap > 100 and k > 5):
                        break
                    y, dim = krylov_opt(A, R.P, R.B[:, j], X0[:, j], k)
                    e_0 = a_norm(A, xs - X0[:, j])
                    ref = max(e_0, a_norm(A, xs))
                    self.stats["oracle_checked"] += 1
                    dx = a_norm(A, rk["X"][:, j] - y) / ref if ref > 0 else 0.0
                    lim = 1e-6 * max(1.0, kap / 10)
                    if sd is not None:
                        # d_self is relative to the 2-norm scale; convert generously to the A-norm scale
                        s2 = max(np.linalg.norm(rk["X"][:, j]), np.linalg.norm(X0[:, j]))
                        conv = math.sqrt(np.linalg.norm(A, 2)) * s2 / ref if ref > 0 else 0.0
                        lim = max(lim, SELF_FACTOR * sd["dx"][k][j] * conv)
                    self.stats["worst_oracle"] = max(self.stats["worst_oracle"], dx)
                    self.stats["worst_oracle_ratio"] = max(self.stats["worst_oracle_ratio"], dx / lim)
                    if dx > lim:
                        bad.append({"clause": "optimal", "step": k, "column": j, "anorm_dev": dx, "limit": lim,
                                    "e_real": a_norm(A, xs - rk["X"][:, j]), "e_opt": a_norm(A, xs - y), "dim": dim})
                        break
                    if dim < k:
                        break
        else:
            self.stats["oracle_skipped"] += 1
        return bad

    # ---- the real float iterate (and the float run of the model) against the EXACT Krylov-optimal iterate
    def exact_checks(self, c, R, sweep, L, plan):
        bad, diffs = [], []
        ex, kx = L.get("exact"), plan["kx"]
        st = self.stats
        K = len(sweep) - 1
        self.bump("exact_kx", kx if ex else "none")
        # steps the cap determines but the bound cannot decide
        st["exact_undecidable"] += sum(1 for k in range(max(kx, -1) + 1, K + 1) if sweep[k]["iterations"] - 1 == k) * R.m
        if not ex or kx < 0:
            return bad, diffs
        A, n = R.A, R.n
        X0 = np.zeros_like(R.B) if R.X0 is None else R.X0
        sk = math.sqrt(plan["kappa_eff"])
        kb = "1e%d" % round(math.log10(max(plan["kappa_eff"], 1.0)))
        for j in range(R.m):
            sc = float(np.linalg.norm(R.B[:, j]))
            if sc == 0:
                continue
            bj, x0j = R.B[:, j] / sc, X0[:, j] / sc           # scale-free (columns of norm 1e-140 .. 1e6)
            xstar = np.linalg.solve(A, bj)
            ref = max(a_norm(A, xstar - x0j), a_norm(A, xstar))
            if not (ref > 0 and np.isfinite(ref)):
                continue
            for k in range(min(kx, K, len(ex[j]["xs"]) - 1) + 1):
                rk = sweep[k]
                if rk["iterations"] - 1 != k:
                    break                       # stopped by the tolerance: later caps return the same iterate
                xe = ex[j]["xs"][k] / sc
                bound = bound_exact(n, sk, k)
                dA = a_norm(A, rk["X"][:, j] / sc - xe) / ref
                st["exact_checked"] += 1
                self.bump("exact_by_kappa", kb)
                st["worst_exact"] = max(st["worst_exact"], dA)
                st["worst_exact_ratio"] = max(st["worst_exact_ratio"], dA / bound)
                if not dA <= bound:
                    bad.append({"clause": "optimal-exact", "step": k, "column": j, "anorm_dev_from_exact_optimum": dA, "bound": bound,
                                "kappa_PA": plan["kappa_eff"],
                                "detail": "the iterate of the real cg deviates from the exact-arithmetic Krylov-optimal iterate by more than B_k"})
                    break
                if k < len(L["trace"]) and L["trace"][k]["X"] is not None:
                    dM = a_norm(A, L["trace"][k]["X"][:, j] / sc - xe) / ref
                    st["exact_model_checked"] += 1
                    st["worst_exact_model_ratio"] = max(st["worst_exact_model_ratio"], dM / bound)
                    if not dM <= bound:
                        diffs.append({"what": "float run of the model vs exact Krylov optimum", "step": k, "column": j, "anorm_dev": dM, "bound": bound})
                        break
        return bad, diffs

    def scaling_check(self, c, R, base):
        """x0 = 0: cg(A, c*b) = c*cg(A, b); bit-exact for c a power of two"""
        bad = []
        if R.X0 is not None:
            return bad
        for cfac in (4.0, 0.125):
            r2 = R.run(c["max_iters"], B=R.B * cfac)
            self.stats["scale_checked"] += 1
            self.stats["evaluations"] += 1
            if r2["iterations"] != base["iterations"] or not np.array_equal(r2["X"], base["X"] * cfac):
                bad.append({"clause": "scale", "factor": cfac})
        return bad

    # ---- correspondence real vs model
    def compare(self, c, R, L, sweep, sd):
        diffs = []
        rt = rt_of(c)
        K = c["max_iters"]
        X0 = np.zeros_like(R.B) if R.X0 is None else R.X0
        sL = len(L["trace"]) - 1
        tr_res = [t["res"] for t in L["trace"]]
        e0 = tr_res[0] if tr_res[0] > 0 else 1.0
        for k, rk in enumerate(sweep):
            exp_s = min(k, sL)
            s = rk["iterations"] - 1
            if sd["unstable"][k]:
                # the rounding-equivalent real runs do not even agree on the step count at this cap
                self.stats["knife_edge"] += 1
                continue
            if s != exp_s:
                d = min(s, exp_s)
                unc = 0.0
                if d >= 2 and d - 2 < len(sd["derr"][k]):
                    unc = SELF_FACTOR * float(sd["derr"][k][d - 2])   # measured rounding uncertainty of the residual at step d
                if sd["unstable"][k] or self.knife(L, d, unc):
                    self.stats["knife_edge"] += 1
                    continue
                diffs.append({"what": "step count", "max_iters": k, "real_steps": s, "model_steps": exp_s})
                continue
            self.stats["iter_compared"] += 1
            allow = SELF_FACTOR * sd["dx"][k]
            if np.any(allow > rt):
                self.stats["iter_loose"] += 1
            ok, w = cols_close(rk["X"], L["trace"][exp_s]["X"], rt, ref=X0, allow=allow)
            if np.isfinite(w):
                self.stats["worst_x"] = max(self.stats["worst_x"], w)
            dv = col_devs(rk["X"], L["trace"][exp_s]["X"], X0)
            self.stats["worst_x_ratio"] = max(self.stats["worst_x_ratio"], float(np.max(dv / np.maximum(rt, allow))) if len(dv) else 0.0)
            if not ok:
                diffs.append({"what": "iterate", "max_iters": k, "rel_dev": w, "allowed": float(np.max(np.maximum(rt, allow)))})
            ee = expected_errors(tr_res, exp_s)
            if len(ee) != len(rk["errors"]):
                diffs.append({"what": "len(errors)", "max_iters": k, "real": len(rk["errors"]), "model": len(ee)})
            elif not all(res_close(a, b, e0, rt, SELF_FACTOR * d) for a, b, d in zip(rk["errors"], ee, sd["derr"][k])):
                diffs.append({"what": "errors", "max_iters": k, "real": list(map(float, rk["errors"])), "model": ee,
                              "self_dev": list(map(float, sd["derr"][k]))})
        # the model's own final answer at max_iters = K
        if L["iterations"] != sL + 1 or L["k"] != sL:
            diffs.append({"what": "model bookkeeping", "iterations": L["iterations"], "k": L["k"], "trace": sL + 1})
        ee = expected_errors(tr_res, sL)
        if len(ee) != len(L["errors"]) or any(a != b for a, b in zip(ee, L["errors"])):
            diffs.append({"what": "model errors vs model trace", "errors": list(L["errors"]), "trace": ee})
        if sL <= K and not np.array_equal(L["X"], L["trace"][sL]["X"]):
            diffs.append({"what": "model x vs model trace"})
        for j in c["zero_cols"]:
            if np.any(L["X"][:, j] != 0):
                diffs.append({"what": "model zero column not zero", "column": j})
        return diffs

    def knife(self, L, d, unc=0.0):
        if d >= len(L["trace"]):
            return False
        res = L["trace"][d]["res"]
        e0 = L["trace"][0]["res"] or 1.0
        if res <= NOISE * e0:
            return True
        return any(abs(r - t) <= max(KNIFE, unc) * max(r, t) for r, t in zip(L["col_res"][d], L["tol_eff"]))

    def one_case(self, c, lean_ans):
        st = self.stats
        R = Real(c)
        K = c["max_iters"]
        sweep = [R.run(k) for k in range(K + 1)]
        L = lean_decode(lean_ans, c["complex"])
        st["cases"] += 1
        base = sweep[K]
        steps = base["iterations"] - 1
        # distributions
        self.bump("n", c["n"]); self.bump("kappa", c["kappa"]); self.bump("columns", c["m"]); self.bump("pkind", c["pkind"])
        self.bump("field", "complex" if c["complex"] else "real"); self.bump("x0kind", c["x0kind"]); self.bump("spec", c["spec"])
        self.bump("tol", c["tol"])
        for k in range(K + 1):
            self.bump("k", min(k, steps))
        self.bump("stop", "max_iters" if steps == K else "tolerance")
        if steps == 0 and K > 0:
            self.bump("stop", "initial residual below tolerance")
        st["zero_cols"] += len(c["zero_cols"])
        for j in range(R.m):
            nb = float(np.linalg.norm(R.B[:, j]))
            self.bump("colnorm", "zero" if nb == 0 else ("1e-140..1e-45" if nb < 1e-40 else "1e%+03d" % (3 * math.floor(math.log10(nb) / 3))))
        for bname, v in (L["branches"] or {}).items():
            if v:
                self.bump("branches", bname, v)
        if c["n"] >= 2 and steps >= 1:
            st["nontrivial"].add(common.canon({k: c[k] for k in ("A", "b", "x0", "P", "tol", "max_iters", "complex")}))
        if len(st["samples"]) < 3 and c["n"] >= 2 and steps >= 2:
            st["samples"].append({"n": c["n"], "m": c["m"], "kappa": c["kappa"], "complex": c["complex"], "pkind": c["pkind"],
                                  "tol": c["tol"], "max_iters": K, "steps": steps, "iterations": base["iterations"],
                                  "errors": [float(e) for e in base["errors"][:6]],
                                  "x_real[:3,0]": str(base["X"][:3, 0]), "x_model[:3,0]": str(L["X"][:3, 0])})
        real_bad = []
        # product count and the other entry points (bitwise the same computation)
        rc = R.run(K, counting=True)
        st["evaluations"] += 1
        if rc["nprod"] != rc["iterations"]:
            real_bad.append({"clause": "products", "products": rc["nprod"], "iterations": rc["iterations"],
                             "detail": "products with A must be steps + 1 (one for the initial residual)"})
        if rc["nprod"] - 1 > K:
            real_bad.append({"clause": "cap", "max_iters": K, "steps": rc["nprod"] - 1})
        if rc["iterations"] != base["iterations"] or not np.array_equal(rc["X"], base["X"]):
            real_bad.append({"clause": "entry points differ", "detail": "counting LinearOperator vs PSD(Dense)"})
        if c["via_inv"]:
            ri = R.run(K, via_inv=True)
            st["via_inv"] += 1
            st["evaluations"] += 1
            if ri["iterations"] != base["iterations"] or not np.array_equal(ri["X"], base["X"]) or not np.array_equal(ri["errors"], base["errors"]):
                real_bad.append({"clause": "entry points differ", "detail": "inv(A, CG(...)) @ b vs cg(...)"})
        sd = self.self_deviation(c, R, sweep)
        real_bad += self.real_property_checks(c, R, sweep, sd)
        real_bad += self.scaling_check(c, R, base)
        diffs = self.compare(c, R, L, sweep, sd)
        eb, ed = self.exact_checks(c, R, sweep, L, c.get("_plan") or exact_plan(c))
        real_bad += eb
        diffs += ed
        if c.get("long_run"):
            real_bad += self.long_run_checks(c, R)
        return real_bad, diffs

    # ---- large sizes: one run to convergence (max_iters = 2n), model-free statements only
    def long_run_checks(self, c, R):
        bad = []
        n, m, A = R.n, R.m, R.A
        cap = 2 * n
        rk = R.run(cap, counting=True)
        self.stats["long_runs"] += 1
        self.stats["large_cases"] += 1
        self.stats["evaluations"] += 1
        s = rk["iterations"] - 1
        if s > cap:
            bad.append({"clause": "cap", "max_iters": cap, "steps": s})
        if len(rk["errors"]) != max(s, 0):
            bad.append({"clause": "bookkeeping", "max_iters": cap, "steps": s, "len_errors": len(rk["errors"])})
        if rk["nprod"] != rk["iterations"]:
            bad.append({"clause": "products", "products": rk["nprod"], "iterations": rk["iterations"]})
        for j in c["zero_cols"]:
            if np.any(rk["X"][:, j] != 0):
                bad.append({"clause": "zero", "max_iters": cap, "column": j})
        X0 = np.zeros_like(R.B) if R.X0 is None else R.X0
        mult = np.linalg.norm(R.B, axis=0)
        live = [j for j in range(m) if mult[j] > 0]
        # per column: at an exit before the cap EVERY column was below its tolerance, so a live column above its tolerance is a
        # violation whatever the other (zero / degenerate) columns are - no batch-level exception
        if live and s < cap:
            kap = c["kappa"] * c.get("kappaP", 1.0)
            r0n = np.array([np.linalg.norm(R.B[:, j] - A @ X0[:, j]) for j in range(m)])
            tol_abs = c["tol"] * (mult + r0n)
            slack = 200 * np.finfo(float).eps * kap * n
            true_res = np.array([np.linalg.norm(R.B[:, j] - A @ rk["X"][:, j]) for j in range(m)])
            if any(true_res[j] > tol_abs[j] * (1 + 1e-3) + slack * (mult[j] + r0n[j]) for j in live):
                bad.append({"clause": "stops-not-before", "step": s, "max_iters": cap,
                            "detail": "a column is above its tolerance but the iteration stopped before max_iters"})
        return bad


def strip(c):
    return {k: v for k, v in c.items() if not k.startswith("_")}


def neighbourhood(c, rng):
    """variants of a case on which the real code is checked against the property's own statement"""
    out = []
    for tol in TOLS:
        d = dict(c); d["tol"] = tol; d["max_iters"] = 2 * c["n"]; out.append(d)
    d = dict(c); d["x0"] = None; d["x0kind"] = "none"; d["max_iters"] = 2 * c["n"]; out.append(d)
    d = dict(c); d["P"] = None; d["pkind"] = "none"; d["kappaP"] = 1.0; d["max_iters"] = 2 * c["n"]; out.append(d)
    d = dict(d); d["x0"] = None; d["x0kind"] = "none"; out.append(d)
    return out


def merge_stats(dst, src):
    for k, v in src.items():
        if isinstance(v, set):
            dst[k] |= v
        elif isinstance(v, dict):
            for kk, vv in v.items():
                dst[k][kk] = dst[k].get(kk, 0) + vv
        elif isinstance(v, list):
            dst[k] = (dst[k] + v)[:3]
        elif k.startswith("worst"):
            dst[k] = max(dst[k], v)
        else:
            dst[k] += v


def _work(args):
    """one case in a worker process: (id, real_bad, diffs, stats)"""
    c, ans = args
    chk = Checker(None)
    try:
        real_bad, diffs = chk.one_case(c, ans)
    except Exception as ex:  # machinery failure: surface it in the parent
        import traceback
        return c["id"], None, traceback.format_exc(), chk.stats
    return c["id"], real_bad, diffs, chk.stats


def tiny_rhs_probe():
    """right-hand sides of tiny norm (fixed in /repo by e0cb27f: exact normalisation instead of the 1e-40 clamp);
    below ~1e-154 the squares inside np.linalg.norm underflow and the column is taken for a zero column"""
    A = np.diag([2.0, 3.0])
    Aop = cola.PSD(cola.ops.Dense(A))
    b = np.array([1.0, 1.0])
    out = {}
    for s in (1e-30, 1e-45, 1e-140, 1e-200):
        x, info = real_cg(Aop, s * b, None, None, 1e-10, 10)
        out[str(s)] = {"x/s": [float(v) for v in np.asarray(x) / s], "iterations": int(info["iterations"])}
    out["expected x/s"] = [0.5, 1.0 / 3.0]
    ok = lambda k: bool(np.linalg.norm(np.array(out[k]["x/s"]) - np.array([0.5, 1 / 3])) < 1e-6)
    out["clamp_defect_present (|b| < 1e-40)"] = not (ok("1e-45") and ok("1e-140"))
    out["norm_underflow_returns_zero (|b| < 1e-154, IEEE only)"] = not ok("1e-200")
    return out


def tiny_scale_probe():
    """regression probe for the repaired defect `tiny-operator-scale` (/repo 1a4d949; Lean: C12_tiny_scale_regression):
    Hermitian positive-definite operator of scale 1e-41 (condition number < 6)"""
    T = np.array([[2.0, -1.0, 0.0], [-1.0, 2.0, -1.0], [0.0, -1.0, 2.0]])
    b = np.array([1.0, 0.0, 0.0])
    out = {}
    for sc in (1e-30, 1e-41):
        x, info = real_cg(cola.PSD(cola.ops.Dense(sc * T)), b, None, None, 1e-6, 3)
        xs = np.linalg.solve(T, b)
        out[str(sc)] = {"x*scale": [float(v) for v in np.asarray(x) * sc], "iterations": int(info["iterations"]),
                        "rel_err": float(np.linalg.norm(np.asarray(x) * sc - xs) / np.linalg.norm(xs))}
    out["expected x*scale"] = [0.75, 0.5, 0.25]
    out["defect_present"] = bool(out["1e-41"]["rel_err"] > 1e-6)
    out["control_ok (scale 1e-30)"] = bool(out["1e-30"]["rel_err"] < 1e-9)
    return out


# ----------------------------------------------------------------------------- round 5: Nystrom preconditioner stream
NYS_MODULE = "ColaVerif.Properties.C12.Nystrom"
NYS_TOL = 1e-10          # relative tolerance of the direct formulas (contract, P @ V, inverse(P) @ V, sqrt(P) @ V)
NYS_FIELD_TOL = 1e-13    # amu / subspace_num / subspace_denom: the same two or three float operations on both sides


def nys_gen(rng, idx):
    nrng = np.random.default_rng(rng.getrandbits(63))
    cplx = rng.random() < 0.3
    n = rng.randint(2, 8)
    rank = rng.randint(1, n)
    kappa = rng.choice([1.0, 10.0, 10.0, 100.0, 100.0])
    kind, lam = spectrum(rng, n, kappa)
    scale = 10.0 ** rng.choice([0, 0, -2, 2])
    A = hpd(nrng, lam * scale, cplx)
    m = rng.choice([1, 2, 3])
    V = nrng.normal(size=(n, m))
    b = nrng.normal(size=n)
    if cplx:
        V = V + 1j * nrng.normal(size=(n, m))
        b = b + 1j * nrng.normal(size=n)
    return {"id": idx, "complex": cplx, "n": n, "rank": rank, "kappa": kappa, "spec": kind, "mu": rng.choice([1e-1, 1e-2, 1e-3, 1e-7]),
            "adjust_mu": rng.random() < 0.8, "key": rng.randint(0, 2 ** 31 - 1), "A": enc(A), "V": enc(V.T), "b": enc(b)}


def nys_build(c):
    from cola.linalg.preconditioning.preconditioners import NystromPrecond
    A = dec(c["A"], c["complex"])
    P = NystromPrecond(cola.PSD(cola.ops.Dense(A)), rank=c["rank"], mu=c["mu"], adjust_mu=c["adjust_mu"], key=c["key"])
    return A, P


def nys_lean_input(c, P):
    return {"id": c["id"], "complex": c["complex"], "U": enc(np.asarray(P.U)), "Lambda": enc(np.asarray(P.Lambda)),
            "mu": [fbits(c["mu"]), 0], "adjust_mu": bool(c["adjust_mu"]), "V": c["V"]}


def nys_run_driver(inputs, nproc=4, timeout=1800):
    if not inputs:
        return {}
    nproc = max(1, min(nproc, len(inputs)))
    procs = []
    for ch in [inputs[i::nproc] for i in range(nproc)]:
        f = tempfile.TemporaryFile(mode="w+")
        for d in ch:
            f.write(json.dumps(d) + "\n")
        f.seek(0)
        procs.append((subprocess.Popen(["lake", "env", "lean", "--run", "DriverNys.lean"], cwd=common.LEAN_DIR, stdin=f,
                                       stdout=subprocess.PIPE, stderr=subprocess.PIPE, text=True), f))
    out = {}
    for p, f in procs:
        so, se = p.communicate(timeout=timeout)
        f.close()
        if p.returncode != 0:
            raise RuntimeError(f"lean Nystrom driver failed rc={p.returncode}: {se[-2000:]}")
        for line in so.splitlines():
            if line.strip():
                a = json.loads(line)
                if "error" in a:
                    raise RuntimeError(f"lean Nystrom driver: {a}")
                out[a["id"]] = a
    return out


def nys_judge(c, A, P, ans):
    """-> dict(contract=[...], diffs=[real vs code], spec=[real vs spec], cg=[...], info)"""
    from cola.linalg.preconditioning.preconditioners import inverse as nys_inverse, sqrt as nys_sqrt
    cp = c["complex"]
    n = c["n"]
    U = np.asarray(P.U)
    Lam = np.asarray(P.Lambda, dtype=float)
    r = U.shape[1]
    amu = float(np.real(P.adjusted_mu))
    num = float(np.real(P.subspace_num))
    den = np.real(np.asarray(P.subspace_denom, dtype=complex)).astype(float)
    V = dec(c["V"], cp).T
    out = {"contract": [], "diffs": [], "spec": [], "cg": [], "info": {}}
    # ---- the contract of get_nys_approx (hypotheses contract_U, contract_Lambda, 0 < amu of the theorems)
    if U.shape != (n, c["rank"]) or Lam.shape != (r,):
        out["contract"].append({"clause": "shapes", "U": list(U.shape), "Lambda": list(Lam.shape)})
        return out
    dU = float(np.abs(U.conj().T @ U - np.eye(r)).max())
    if not dU <= NYS_TOL:
        out["contract"].append({"clause": "contract_U", "max|U^H U - I|": dU})
    if not np.all(Lam >= 0):
        out["contract"].append({"clause": "contract_Lambda", "min": float(Lam.min())})
    if not amu > 0:
        out["contract"].append({"clause": "amu>0", "amu": amu})
    if out["contract"]:
        return out
    # ---- real vs code model
    lamu, lnum = unbits(ans["amu"][0]), unbits(ans["eigmax"][0])
    lden = np.array([unbits(e[0]) for e in ans["denom"]])
    for name, a, b in (("adjusted_mu", amu, lamu), ("subspace_num", num, lnum), ("preconditioned_eigmax", float(np.real(P.preconditioned_eigmax)), lnum),
                       ("preconditioned_eigmin", float(np.real(P.preconditioned_eigmin)), unbits(ans["eigmin"][0]))):
        if rel(a, b) > NYS_FIELD_TOL:
            out["diffs"].append({"what": name, "real": a, "model": b})
    if lden.shape != den.shape or any(rel(a, b) > NYS_FIELD_TOL for a, b in zip(den, lden)):
        out["diffs"].append({"what": "subspace_denom", "real": den.tolist(), "model": lden.tolist()})
    Pi, Ps = nys_inverse(P), nys_sqrt(P)
    for name, op, key in (("P @ V", P, "PV"), ("inverse(P) @ V", Pi, "invPV"), ("sqrt(P) @ V", Ps, "sqrtPV")):
        Xr = np.asarray(op @ V)
        Xm = dec(ans[key], cp).T
        ok, dv = cols_close(Xr, Xm, NYS_TOL, ref=V)
        out["info"]["dev " + name] = dv
        if not ok:
            out["diffs"].append({"what": name, "rel_dev": dv})
    # ---- real vs spec (the theorems of Properties/C12/Nystrom.lean)
    I = np.eye(n)
    D, Di, Ds = (np.asarray(op @ I.astype(V.dtype)) for op in (P, Pi, Ps))
    ratio = num / den
    condP = float(max(ratio.max(), 1.0) / min(ratio.min(), 1.0))
    sD = max(1.0, float(np.abs(D).max()))
    spec = out["spec"]
    if float(np.abs(D - D.conj().T).max()) > NYS_TOL * sD:
        spec.append({"theorem": "C12_nystrom_posDef", "what": "P is not Hermitian", "dev": float(np.abs(D - D.conj().T).max())})
    elif float(np.linalg.eigvalsh((D + D.conj().T) / 2).min()) <= 0:
        spec.append({"theorem": "C12_nystrom_posDef", "what": "P is not positive definite"})
    d = float(np.abs(Di @ D - I).max())
    if d > NYS_TOL * condP:
        spec.append({"theorem": "C12_nystrom_inverse", "what": "inverse(P) @ P != I", "dev": d, "allowed": NYS_TOL * condP})
    d = float(np.abs(Ds @ Ds - D).max())
    if d > NYS_TOL * sD:
        spec.append({"theorem": "C12_nystrom_sqrt", "what": "sqrt(P) @ sqrt(P) != P", "dev": d})
    lmin = float(Lam.min())
    Ahat = (U * Lam) @ U.conj().T + amu * I
    want = amu * I + lmin * (U @ U.conj().T)
    sA = float(np.abs(Ahat).max()) * sD
    d = float(np.abs(D @ Ahat - want).max())
    if d > NYS_TOL * sA:
        spec.append({"theorem": "C12_nystrom_spectrum", "what": "P (U L U^H + amu) != amu + lmin U U^H", "dev": d})
    ev = np.linalg.eigvalsh((D @ Ahat + (D @ Ahat).conj().T) / 2)
    if ev.min() < amu - 1e-8 * sA or ev.max() > lmin + amu + 1e-8 * sA:
        spec.append({"theorem": "C12_nystrom_spectrum", "what": "spectrum outside [amu, min(Lambda) + amu]", "eig": [float(ev.min()), float(ev.max())],
                     "interval": [amu, lmin + amu]})
    out["info"]["condP"] = condP
    out["info"]["max|sigma|"] = float(np.abs(ratio - 1).max())
    # ---- cg(A + amu I, b, P = NystromPrecond): Krylov-optimal in the P-preconditioned sense (C12_nystrom_optimal_any)
    if not spec:
        Asys = A + amu * I
        b = dec(c["b"], cp)
        ev = np.real(np.linalg.eigvals(D @ Asys))
        kap = float(ev.max() / ev.min()) if ev.min() > 0 else math.inf
        out["info"]["kappa_PA"] = kap
        out["info"]["kappa_A"] = float(np.linalg.cond(Asys))
        if kap <= 1e4:
            xs = np.linalg.solve(Asys, b)
            ref = a_norm(Asys, xs)
            x0 = np.zeros_like(b)
            for k in range(0, min(n, 6) + 1):
                x, info = real_cg(cola.PSD(cola.ops.Dense(Asys)), b.copy(), None, P, 1e-30, k)
                out["info"]["cg_runs"] = out["info"].get("cg_runs", 0) + 1
                if int(info["iterations"]) - 1 != k or (kap > 100 and k > 5):
                    break
                y, dim = krylov_opt(Asys, D, b, x0, k)
                dx = a_norm(Asys, np.asarray(x) - y) / ref if ref > 0 else 0.0
                lim = 1e-6 * max(1.0, kap / 10)
                out["info"]["cg_worst_ratio"] = max(out["info"].get("cg_worst_ratio", 0.0), dx / lim)
                out["info"]["cg_checked"] = out["info"].get("cg_checked", 0) + 1
                if dx > lim:
                    out["cg"].append({"clause": "optimal", "step": k, "anorm_dev": dx, "limit": lim, "dim": dim})
                    break
                if dim < k:
                    break
    return out


def nystrom_stream(ctx, rng, replay_case=None):
    """real NystromPrecond objects vs the Lean model (DriverNys.lean) vs the theorems; returns the coverage dict"""
    ncases = 80 if not ctx.thorough else 800
    cases = [replay_case] if replay_case is not None else [nys_gen(rng, i) for i in range(ncases)]
    built, construct_err = [], 0
    for c in cases:
        try:
            A, P = nys_build(c)
        except np.linalg.LinAlgError as ex:
            construct_err += 1        # get_nys_approx fails on a Hermitian PD input (pre-67a8740: Cholesky of the non-Hermitian Omega.T @ Y)
            if construct_err <= 3:
                common.violation(ctx, {"nystrom_case": c, "violated": [{"clause": "construction", "error": repr(ex)}],
                                       "how": "NystromPrecond(PSD(Dense(A)), rank, ...) raises on a Hermitian positive-definite A"})
            continue
        built.append((c, A, P))
    answers = nys_run_driver([nys_lean_input(c, P) for c, A, P in built], nproc=4 if not ctx.thorough else 16)
    st = {"cases": len(cases), "evaluations": 0, "nontrivial": set(), "field": {}, "n": {}, "rank": {}, "mu": {}, "adjust_mu": {}, "cg_checked": 0, "cg_runs": 0,
          "cg_worst_ratio": 0.0, "worst_dev": 0.0, "construction_errors": construct_err,
          "worst_condP": 0.0, "samples": []}
    nviol = 0
    for c, A, P in built:
        j = nys_judge(c, A, P, answers[c["id"]])
        st["evaluations"] += 6 + j["info"].get("cg_runs", 0)
        for k, v in (("field", "complex" if c["complex"] else "real"), ("n", c["n"]), ("rank", c["rank"]), ("mu", c["mu"]), ("adjust_mu", c["adjust_mu"])):
            st[k][str(v)] = st[k].get(str(v), 0) + 1
        st["cg_checked"] += j["info"].get("cg_checked", 0)
        st["cg_runs"] += j["info"].get("cg_runs", 0)
        st["cg_worst_ratio"] = max(st["cg_worst_ratio"], j["info"].get("cg_worst_ratio", 0.0))
        st["worst_condP"] = max(st["worst_condP"], j["info"].get("condP", 0.0))
        st["worst_dev"] = max([st["worst_dev"]] + [v for k, v in j["info"].items() if k.startswith("dev ")])
        if c["rank"] >= 2 and j["info"].get("max|sigma|", 0.0) > 1e-3:
            st["nontrivial"].add(json.dumps([c["A"], c["rank"], c["key"], c["mu"], c["adjust_mu"], c["V"]]))
        if len(st["samples"]) < 2:
            st["samples"].append({k: c[k] for k in ("complex", "n", "rank", "mu", "adjust_mu", "key", "kappa", "spec")} | {"info": j["info"]})
        payload = {"nystrom_case": c, "call": "NystromPrecond(PSD(Dense(A)), rank, mu=mu, adjust_mu=adjust_mu, key=key)"}
        if j["contract"]:
            nviol += 1
            if nviol <= 3:
                common.violation(ctx, dict(payload, violated=j["contract"], how="get_nys_approx broke its contract (U^H U = I, Lambda >= 0, amu > 0) on this input"))
        elif j["diffs"]:
            nviol += 1
            if nviol <= 3:
                if j["spec"] or j["cg"]:
                    common.violation(ctx, dict(payload, violated=(j["spec"] + j["cg"])[:5], found_from=j["diffs"][:3],
                                               how="real Nystrom preconditioner disagrees with the Lean model AND contradicts the theorems on this input"))
                else:
                    common.violation(ctx, dict(payload, broken="correspondence real NystromPrecond vs Lean model (Model/Nystrom.lean)", diffs=j["diffs"][:5]), no_input=True)
        elif j["spec"] or j["cg"]:
            nviol += 1
            if nviol <= 3:
                common.violation(ctx, dict(payload, violated=(j["spec"] + j["cg"])[:5],
                                           how="real = model and the contract holds, yet the theorems' conclusion fails numerically on this input"))
    st["distinct_nontrivial"] = len(st.pop("nontrivial"))
    st["violations"] = nviol + construct_err
    st["rule"] = ("real NystromPrecond(PSD(Dense(A)), rank, mu, adjust_mu, key) on HPD A = Q diag(lambda) Q^H, n = 2..8, rank = 1..n, kappa in {1, 10, 100}, scale 1e-2..1e2, "
                  "30% complex, mu in {1e-1, 1e-2, 1e-3, 1e-7}; U, Lambda read from the object; contract |U^H U - I| <= 1e-10, Lambda >= 0, amu > 0; "
                  "amu / num / denom (1e-13) and P @ V, inverse(P) @ V, sqrt(P) @ V (column-wise 2-norm, 1e-10) against DriverNys.lean (createApprox, matmat, inverse, sqrtP "
                  "over Float / CFloat); theorems checked on dense matrices: Hermitian PD, inverse(P) P = I (1e-10 * cond P), sqrt(P)^2 = P, "
                  "P (U L U^H + amu) = amu + min(L) U U^H and its spectrum in [amu, min(L) + amu]; cg(A + amu I, b, P) for max_iters = 0..min(n, 6) against the dense "
                  "Krylov-optimum oracle of this module (A-norm, 1e-6 * max(1, kappa(PA)/10)); evaluations = products / cg runs of the real code; "
                  "non-trivial = rank >= 2 and some |sigma_i| > 1e-3")
    return st



def run(ctx):
    import multiprocessing as mp
    gate, gate_err = None, None
    try:
        gate = dict(common.lean_gate(ctx, MODULE))
        g2 = common.lean_gate(ctx, NYS_MODULE)          # round 5: Properties/C12/Nystrom.lean
        gate["obligations"] += g2["obligations"]
        gate["discharged"] += g2["discharged"]
        gate["theorems"] = sorted(set(gate["theorems"]) | set(g2["theorems"]))
    except common.LeanGateError as ex:
        gate_err = str(ex)
        print("lean gate failed:\n" + gate_err[-1500:], flush=True)
    rng = random.Random(ctx.seed * 104729 + 12)
    chk = Checker(ctx)
    t0 = time.time()
    if ctx.replay:
        rp = json.load(open(ctx.replay))
        cases = [rp["case"]] if rp.get("case") else []
        nys_replay = rp.get("nystrom_case")
        hist_replay = rp.get("stream") == "history"
        for i, c in enumerate(cases):
            c["id"] = i
    else:
        ncases = 600 if not ctx.thorough else 6000
        nmax = 12 if not ctx.thorough else 40
        cases = [gen_case(rng, i, nmax if (not ctx.thorough or i % 8 == 0) else 12) for i in range(ncases)]
        if ctx.thorough:
            cases += [gen_large(rng, 10 ** 6 + i) for i in range(48)]
    for c in cases:
        c["_plan"] = exact_plan(c)
    answers = run_driver([lean_input(c, exact=True) for c in cases])
    t_lean = time.time() - t0
    nproc = min(16, os.cpu_count() or 1, max(1, len(cases)))
    jobs = [(c, answers[c["id"]]) for c in cases]
    if nproc > 1 and len(cases) > 4:
        with mp.get_context("fork").Pool(nproc) as pool:
            results = pool.map(_work, jobs, chunksize=max(1, len(jobs) // (nproc * 8)))
    else:
        results = [_work(j) for j in jobs]
    byid = {c["id"]: c for c in cases}
    n_real_viol = 0
    n_corr = 0
    for cid, real_bad, diffs, stats in sorted(results, key=lambda r: r[0]):
        merge_stats(chk.stats, stats)
        c = byid[cid]
        if real_bad is None:
            raise RuntimeError(f"check machinery failed on case {cid}:\n{diffs}")
        if real_bad:
            n_real_viol += 1
            if n_real_viol <= 3:
                common.violation(ctx, {"case": strip(c), "violated": real_bad[:5], "how": "the real cg violates the property's own statement on this input (no model involved)"})
        elif diffs:
            n_corr += 1
            if n_corr > 3:
                continue
            # real vs model disagree: look for an input where the real code violates the property itself
            found = None
            for d in neighbourhood(c, rng):
                d = dict(d); d["id"] = 0
                R = Real(d)
                sweep = [R.run(k) for k in range(d["max_iters"] + 1)]
                bad = chk.real_property_checks(d, R, sweep, chk.self_deviation(d, R, sweep)) + chk.scaling_check(d, R, sweep[-1])
                if bad:
                    found = (d, bad)
                    break
            if found:
                common.violation(ctx, {"case": strip(found[0]), "violated": found[1][:5], "found_from": diffs[:3],
                                       "how": "real/model disagreement; neighbourhood search found a property violation of the real code"})
            else:
                common.violation(ctx, {"broken": "correspondence real cg vs Lean model (Model/CG.lean)", "case": strip(c), "diffs": diffs[:5]}, no_input=True)
    if gate_err is not None and not ctx.violations:
        common.violation(ctx, {"broken": f"Lean gate of {MODULE}", "detail": gate_err[-3000:]}, no_input=True)
    tiny = tiny_rhs_probe()
    if tiny["clamp_defect_present (|b| < 1e-40)"]:
        # regression probe of the defect repaired by /repo e0cb27f; no clause is recorded for it: a return is a violation
        common.violation(ctx, {"case": None, "violated": [{"clause": "scale / optimal", "detail": "cg(diag(2,3), 1e-45*[1,1]) / 1e-45 != [1/2, 1/3]", "probe": tiny}],
                               "how": "fixed probe: right-hand side of norm below 1e-40 (the 1e-40 clamp of the normalisation is back)"})
    tscale = tiny_scale_probe()
    if tscale["defect_present"] or not tscale["control_ok (scale 1e-30)"]:
        common.violation(ctx, {"case": None, "violated": [{"clause": "optimal", "probe": tscale,
                                                          "call": "cg(PSD(Dense(s * [[2,-1,0],[-1,2,-1],[0,-1,2]])), [1,0,0], None, None, 1e-6, 3) for s in (1e-30, 1e-41)"}],
                               "how": "fixed probe: cg on a Hermitian positive-definite operator of tiny scale does not return the solution after n = 3 steps "
                                      "(an absolute threshold in do_safe_div is back)"})
    nys = None
    if not ctx.replay or nys_replay is not None:
        nys = nystrom_stream(ctx, random.Random(ctx.seed * 104729 + 1205), nys_replay if ctx.replay else None)
        chk.stats["evaluations"] += nys["evaluations"]
    hist = None
    if not ctx.replay or hist_replay:
        # reports stay what they were while later solves run (harness/props/c12_history.py); exact observations
        h_checks, h_problems, h_samples = c12_history.history_stream(ctx, random.Random(ctx.seed * 7 + 1212))
        for prob in h_problems[:3]:
            common.violation(ctx, {"stream": "history", **prob})
        hist = {"checks": h_checks, "problems": len(h_problems), "samples": h_samples}
    st = chk.stats
    cov = {
        "evaluations": st["evaluations"],
        "distinct_nontrivial": len(st["nontrivial"]),
        "rule": ("HPD systems A = Q diag(lambda) Q^H from one random.Random(seed) stream: real and complex, n = 1..%d, kappa in {1, 10, 1e3}, "
                 "spectra geometric / linear / clustered / exactly repeated / two-valued, operator scale 1e-2..1e2, 1-4 columns with norms "
                 "10^U(-6,6) (12 decades) or tiny 10^-U(45,140), zero columns, few-eigenvector columns, x0 in {None, random, exact solution}, P in {None, Jacobi (Diagonal), dense SPD}, "
                 "tol in {1e-12..1e-1}, max_iters = 2n (50%%) or random in 0..2n; the real cg is run for EVERY max_iters = 0..K (plus four "
                 "rounding-equivalent variants each, a counting-operator run, inv(A, CG) for a quarter, scaled right-hand sides) and each run is "
                 "compared with the model's trace; evaluations = runs of the real cg; distinct = canonical JSON of the bit-exact inputs; "
                 "non-trivial = n >= 2 and >= 1 step" % (12 if not ctx.thorough else 40)),
        "compare": "tol",
        "compare_rule": __doc__.split("Tolerance rule", 1)[1],
        "cases": st["cases"], "iterates_compared": st["iter_compared"], "iterates_compared_with_measured_tolerance": st["iter_loose"],
        "knife_edge_skips": st["knife_edge"],
        "worst_relative_iterate_deviation": st["worst_x"], "worst_iterate_deviation_over_allowed": st["worst_x_ratio"],
        "worst_oracle_anorm_deviation": st["worst_oracle"], "worst_oracle_deviation_over_allowed": float(st["worst_oracle_ratio"]),
        "oracle_checked": st["oracle_checked"], "oracle_skipped_cases": st["oracle_skipped"], "scale_checked": st["scale_checked"],
        "zero_columns": st["zero_cols"], "stop_kept_running_by_degenerate_column_observed_alone": st["stop_kept_by_degenerate_col"], "via_inv": st["via_inv"],
        "dist_n": st["n"], "dist_kappa": st["kappa"], "dist_steps_k": st["k"], "dist_columns": st["columns"],
        "dist_preconditioner": st["pkind"], "dist_field": st["field"], "dist_x0": st["x0kind"], "dist_spectrum": st["spec"],
        "dist_tol": st["tol"], "dist_column_norm": st["colnorm"], "stop_reasons": st["stop"], "model_branches_hit": st["branches"],
        "exact_reference": {
            "what": "real float iterate (and float run of the model) vs the exact-arithmetic Krylov-optimal iterate (Lean cgExact over Q[i])",
            "bound": "B_k = 64 * 2^-53 * (n + 2) * sqrt(kappa(PA)) * (1 + sqrt(kappa(PA)))^k in the A-norm relative to max(|x*-x0|_A, |x*|_A); decidable iff B_k <= 1e-4",
            "compared_real": st["exact_checked"], "compared_model": st["exact_model_checked"],
            "cap_determined_steps_not_decidable": st["exact_undecidable"],
            "worst_deviation": st["worst_exact"], "worst_deviation_over_bound_real": st["worst_exact_ratio"],
            "worst_deviation_over_bound_model": st["worst_exact_model_ratio"],
            "dist_decidable_steps_kx": st["exact_kx"], "compared_by_kappa": st["exact_by_kappa"],
            "limits": "exact side: n <= %d and an operation budget per case; larger sizes (thorough: n = 50..200, kappa <= 1e6) are float side only" % EXACT_NMAX},
        "large_cases": st["large_cases"], "long_runs_to_convergence": st["long_runs"],
        "provisional_known": sorted(PROVISIONAL_KNOWN), "tiny_operator_scale_probe": tscale,
        "nystrom_stream": nys, "history_stream": hist,
        "samples": st["samples"], "lean_driver_wall_s": round(t_lean, 1),
        "real_violations": n_real_viol, "correspondence_disagreements": n_corr,
        "observations": {"tiny_rhs_norms (stream covers 1e-140..1e6; fixed probe)": tiny},
    }
    common.write_evidence(ctx, gate, cov, assumptions=[
        "theorems are about exact real/complex arithmetic (RCLike instance of the model); the IEEE run of the same model text is what the correspondence compares",
        "C12_optimal_mask holds for non-zero columns while the has_converged mask of take_cg_step (relative residual < 1e-40) has not acted; C12_scale and C12_zero are unconditional",
        "stops-as-soon-as / stops-not-before are checked on the TRUE residual |b - A x| of the real iterates against tol * |b - A x0| + tol * |b|: this is the Lean theorem C12_stop_true_residual (exact arithmetic; any A, P, batch, x0, tol; no guard, mask or definiteness hypothesis), obtained from C12_stop through C12_residual_true_any (for every column with b_j != 0 and every step i the recurrence residual the loop tests equals (b - A x_i)/|b|: x and r are updated with the same alpha) and C12_tolEff_true; under the input-level hypotheses MaskOffN (C12_residual_true_mask), one right-hand side with tol >= 1e-40 (C12_residual_true_single) or none beyond HPD (C12_residual_true_final, some k' <= k) it is moreover the textbook residual of the textbook iterate; the round-1 statement C12_residual_true (hypothesis GuardsOffN on computed quantities) is only kept as a corollary; the float check adds a slack of 200 * eps * kappa * n for the drift of the recurrence residual in IEEE arithmetic",
        "IEEE range: below |b| ~ 1e-154 the squares inside np.linalg.norm underflow and a non-zero column is treated as zero (returns 0); outside the exact-arithmetic model, recorded under observations",
        "a zero column with x0 != 0 has no relative tolerance (|b| = 0): the code iterates on (0, x0) un-normalised and returns exactly 0 (C12_zero; the residual it tests is that of A x = 0 from x0, C12_residual_recurrence); the stops-as-soon-as clause leaves such cases out",
        "Nystrom preconditioner (round 5): NystromPrecond._create_approx / _matmat, NystromPrecondLazy._matmat and the rules inverse / sqrt are modelled (Model/Nystrom.lean) and compared on real objects; get_nys_approx (QR, Cholesky, SVD) is NOT modelled: its contract U^H U = I, Lambda >= 0 and amu > 0 are hypotheses of C12_nystrom_* and are checked numerically (1e-10) on every object the stream builds; real and complex dtypes alike since /repo 67a8740 (conjugate transpose of U; the former finding nystrom-real-U is a regression witness now, C12_nystrom_transpose_regression); AdaNysPrecond and select_rank_adaptively (same _matmat, rank chosen by a power iteration) are not exercised",
        "quick: kappa <= 1e3, n <= 12; thorough: n <= 40 in the main stream plus 48 cases with n in {50, 100, 200}, kappa in {1e3..1e6} (float side: real vs float model with the measured-sensitivity rule on caps 0..K <= 24, one run to convergence judged model-free); the float Krylov-optimum oracle is applied at every step for kappa_eff <= 100 and at steps <= 5 above",
        "comparison with the exact Krylov-optimal iterate only on steps where the bound B_k is informative (<= 1e-4); B_k is an amplification model calibrated by measurement, not a theorem -- beyond it floating-point CG is not comparable with exact CG step by step",
        "C12_optimal_single: one right-hand side and tol >= 1e-40 need no hypothesis beyond HPD A, P; C12_optimal_any: every tol >= 0 and every batch, the returned column is the Krylov-optimal iterate of some k' <= k with k' < k only for a column already converged below 1e-40 |b| (the has_converged mask of take_cg_step is still in the code); the divisions are guarded by an exact zero test since /repo 1a4d949",
    ])
    print(json.dumps({"cases": st["cases"], "evaluations": st["evaluations"], "distinct_nontrivial": len(st["nontrivial"]),
                      "real_violations": n_real_viol, "correspondence": n_corr, "knife": st["knife_edge"],
                      "worst_x_ratio": st["worst_x_ratio"], "worst_oracle_ratio": float(st["worst_oracle_ratio"]),
                      "gate": (gate or {}).get("obligations"), "wall": round(ctx.wall(), 1)}))
