"""C01 — an operator acts on arrays exactly as the matrix it represents."""
import json
import os
import random

import common
import gen
import treecheck

MODULE = "ColaVerif.Properties.C01"
CALLS = ["matmat", "dense"]
CORPUS = os.path.join(common.ROOT, "harness", "corpus", "c01.jsonl")


def trees(ctx, G, n):
    out = []
    rng = G.rng
    for _ in range(n):
        if rng.random() < 0.2:
            out.append(G.special(rng.choice([1, 2, 3])))
            continue
        r, c = G.shape()
        out.append(G.op(r, c, rng.choice([0, 1, 1, 2, 2, 3, 3] + ([4] if ctx.thorough else []))))
    return out


def kernel_stream(ctx):
    """Kernel operator (blocked on-the-fly product): real vs Lean model vs K @ V, exact integers"""
    import numpy as np
    import oracle
    import build
    import shim  # noqa: F401
    from cola.ops import Kernel
    rng = random.Random(ctx.seed * 13 + 1)
    cases, reals = [], []
    N = 60 if not ctx.thorough else 600
    for t in range(N):
        n, m, d = rng.randint(1, 7), rng.randint(1, 7), rng.randint(1, 2)
        bs1, bs2 = rng.randint(1, 9), rng.randint(1, 9)
        cplx = rng.random() < 0.3
        dt = rng.choice([np.complex64, np.complex128]) if cplx else rng.choice([np.float32, np.float64])
        x1 = np.array([[rng.randint(-2, 2) for _ in range(d)] for _ in range(n)], dtype=dt)
        x2 = np.array([[rng.randint(-2, 2) for _ in range(d)] for _ in range(m)], dtype=dt)
        if cplx:
            x1 = x1 * 1j
        b = rng.randint(1, 3)
        vdt = rng.choice([np.float32, np.float64, np.complex64])
        V = np.array([[rng.randint(-2, 2) for _ in range(b)] for _ in range(m)], dtype=vdt)
        Kmat = x1 @ x2.T
        cases.append({"id": t, "call": "kernel", "K": build.exact_mat(Kmat), "x": build.exact_mat(V), "n": n, "m": m, "bs1": bs1, "bs2": bs2})
        try:
            Kop = Kernel(x1, x2, lambda a, c: a @ c.T, bs1, bs2)
            out = Kop @ V
            reals.append({"v": build.exact_mat(out), "shape": list(out.shape), "dt": str(out.dtype), "want_dt": str(np.promote_types(dt, vdt))})
        except Exception as ex:  # noqa: BLE001
            reals.append({"err": f"{type(ex).__name__}: {str(ex)[:100]}"})
    ans = oracle.run_driver(cases)
    bad = 0
    for c, r in zip(cases, reals):
        a = ans.get(c["id"], {})
        ok_model = a.get("code") == a.get("spec")
        ok_real = r.get("v") == a.get("spec") and r.get("dt") == r.get("want_dt")
        if ok_model and ok_real:
            continue
        bad += 1
        if bad <= 2:
            if not ok_real and ok_model:
                common.violation(ctx, {"stream": "Kernel operator", "case": c, "real": r, "expected": a.get("spec"),
                                       "why": "Kernel @ V differs from fn(x1, x2) @ V (value, shape or promoted dtype)"})
            else:
                common.violation(ctx, {"broken": "Kernel block-loop model differs from its specification", "case": c, "answer": a}, no_input=True)
    return {"kernel_cases": len(cases), "kernel_disagreements": bad}


# ---------------------------------------------------------------------------------------- cola.ops.FFT (stand-alone model)
FFT_MODULE = "ColaVerif.Properties.C01.FFT"
FFT_DRIVER = "DriverFFT.lean"
FFT_CALLS = ["matmat", "dense"]                                    # C01; C02 passes the left / transpose / adjoint / annotation calls
FFT_EXACT_N = [1, 4]                                               # root and scale in Q[i]: compared EXACTLY with the Lean driver
FFT_ORACLE_N = [2, 3, 5, 8]                                        # irrational root / scale: tolerance 1e-12 against the defining formula
FFT_TOL = 1e-12


def _fft_is_left(call):
    """`A' @ X` (operand n x b) as opposed to `X @ A'` (operand b x n)"""
    return call in ("matmat", "T_matmat", "H_matmat")


def _fft_real(call, n, adt, X):
    """the real cola call of one case -> ndarray (or bool for the annotation part of `unitary`)"""
    import numpy as np
    import cola
    from cola.ops import FFT
    A = FFT(n) if adt is None else FFT(n, dtype=adt)
    if call == "matmat":
        return A @ X
    if call == "rmatmat":
        return X @ A
    if call == "T_matmat":
        return A.T @ X
    if call == "T_rmatmat":
        return X @ A.T
    if call == "H_matmat":
        return A.H @ X
    if call == "H_rmatmat":
        return X @ A.H
    if call == "dense":
        return A.to_dense()
    if call == "T_dense":
        return A.T.to_dense()
    if call == "H_dense":
        return A.H.to_dense()
    if call == "unitary":
        # the declaration, and the Gram matrix A^H A through the real products
        if not (A.isa(cola.Unitary) and A.T.isa(cola.Unitary) and A.H.isa(cola.Unitary)):
            raise AssertionError("FFT(n) (or its transpose / adjoint) does not report Unitary")
        return A.H @ (A @ np.eye(n, dtype=np.complex128))
    raise ValueError(call)


def _fft_operand(rng, call, n, xdt, vec):
    """Gaussian-integer operand of the right shape for `call` (None for the operand-free calls)"""
    import numpy as np
    if call in ("dense", "T_dense", "H_dense", "unitary"):
        return None
    b = rng.randint(1, 3)
    shape = (n,) if vec else ((n, b) if _fft_is_left(call) else (b, n))
    re = np.array([rng.randint(-3, 3) for _ in range(int(np.prod(shape)))], dtype=np.float64).reshape(shape)
    if np.dtype(xdt).kind == "c":
        im = np.array([rng.randint(-3, 3) for _ in range(int(np.prod(shape)))], dtype=np.float64).reshape(shape)
        return (re + 1j * im).astype(xdt)
    return re.astype(xdt)


def _fft_case_x(call, X):
    """the operand as the driver reads it: a 1-D operand is one column of `A' @ x` / one row of `x @ A'`"""
    import build
    if X is None:
        return None
    if X.ndim == 1:
        X = X[:, None] if _fft_is_left(call) else X[None, :]
    return build.exact_mat(X)


def _fft_formula(call, n, X):
    """tolerance-side reference from the DEFINING FORMULA F[j,k] = exp(-2 pi i jk/n)/sqrt(n) (no FFT routine involved)"""
    import numpy as np
    jk = np.outer(np.arange(n), np.arange(n))
    F = np.exp(-2j * np.pi * jk / n) / np.sqrt(n)
    M = {"T": F.T, "H": F.conj().T}.get(call.split("_")[0], F) if "_" in call else F
    if call == "unitary":
        return np.eye(n, dtype=np.complex128)
    if call.endswith("dense"):
        return M
    if call.endswith("rmatmat"):
        return X @ M
    return M @ X


def fft_one(call, n, adt_name, xdt_name, X):
    """real result of one case as {"v": exact matrix, "shape", "dt"} or {"err"} (used by the stream and by --replay)"""
    import numpy as np
    import build
    adt = None if adt_name is None else np.dtype(adt_name).type
    try:
        out = np.asarray(_fft_real(call, n, adt, X))
        was_vec = X is not None and X.ndim == 1
        o2 = out
        if was_vec and out.ndim == 1:
            o2 = out[:, None] if _fft_is_left(call) else out[None, :]
        return {"v": build.exact_mat(o2), "shape": list(out.shape), "dt": str(out.dtype), "raw": out}
    except Exception as ex:  # noqa: BLE001
        return {"err": f"{type(ex).__name__}: {str(ex)[:200]}"}


def fft_stream(ctx, calls=None, module=FFT_MODULE):
    """cola.ops.FFT: real vs Lean code model vs specification (products with fftDen), EXACT for n in {1, 4};
    n in {2, 3, 5, 8} against the defining formula by tolerance (oracle only).  Gates the sub-module `module`."""
    import collections
    import numpy as np
    import oracle
    import shim  # noqa: F401
    calls = calls or FFT_CALLS
    sub = None
    sub_err = None
    try:
        sub = common.lean_gate(ctx, module)
    except common.LeanGateError as ex:
        sub_err = str(ex)
    rng = random.Random(ctx.seed * 31 + 5)
    N = (20 if not ctx.thorough else 200) * len(calls)
    adts = [None, None, "complex64", "complex128"]
    xdts = ["complex128", "complex128", "complex64", "float64", "float32"]
    cases, metas, reals, seen = [], [], [], set()
    for t in range(N):
        call = calls[t % len(calls)]
        n = 4 if rng.random() < 0.85 else 1
        adt, xdt = rng.choice(adts), rng.choice(xdts)
        vec = rng.random() < 0.15
        X = _fft_operand(rng, call, n, xdt, vec)
        c = {"id": t, "call": call, "n": n}
        if X is not None:
            c["x"] = _fft_case_x(call, X)
        cases.append(c)
        metas.append({"adt": adt, "xdt": xdt if X is not None else None, "vec": bool(vec and X is not None),
                      "x_raw": None if X is None else [[float(np.real(z)), float(np.imag(z))] for z in np.asarray(X).ravel()],
                      "x_shape": None if X is None else list(X.shape)})
        reals.append(fft_one(call, n, adt, xdt, X))
        if n > 1:
            seen.add(json.dumps([call, n, adt, metas[-1]["xdt"], metas[-1]["x_shape"], c.get("x")]))
    try:
        ans = oracle.run_driver(cases, driver=FFT_DRIVER)
        drv_err = None
    except Exception as ex:  # noqa: BLE001
        ans, drv_err = {}, f"{type(ex).__name__}: {str(ex)[-1500:]}"
    bad = not_compared = 0
    per_call = collections.Counter()
    for c, m, r in zip(cases, metas, reals):
        a = ans.get(c["id"], {})
        if "code" not in a:
            not_compared += 1
            continue
        per_call[c["call"]] += 1
        ok_model = a.get("code") == a.get("spec")
        want_shape = [a["rows"], a["cols"]]
        if m["vec"]:
            want_shape = [c["n"]]
        ok_real = r.get("v") == a.get("spec") and r.get("shape") == want_shape
        if ok_model and ok_real:
            continue
        bad += 1
        if bad <= 2:
            rr = {k: v for k, v in r.items() if k != "raw"}
            if ok_model:
                common.violation(ctx, {"stream": "FFT operator", "case": c, "meta": m, "real": rr, "expected": a.get("spec"),
                                       "expected_shape": want_shape,
                                       "why": "cola.ops.FFT: %s differs from the product with the DFT matrix s*w^(jk) "
                                              "(w = exp(-2 pi i/n), s = 1/sqrt(n)) / from the declared annotation" % c["call"]})
            else:
                common.violation(ctx, {"broken": "FFT code model differs from its specification (fftDen)", "case": c, "answer": a},
                                 no_input=True)
    if drv_err is not None or not_compared > 0.02 * len(cases):
        common.violation(ctx, {"broken": "FFT stream: the Lean driver did not answer", "driver": FFT_DRIVER, "detail": drv_err,
                               "not_compared": not_compared, "cases": len(cases)}, no_input=True)
    # ---- tolerance side (oracle only): the other extents against the defining formula
    M = (6 if not ctx.thorough else 60) * len(calls)
    orc = orc_bad = 0
    max_err = 0.0
    for t in range(M):
        call = calls[t % len(calls)]
        n = rng.choice(FFT_ORACLE_N)
        X = _fft_operand(rng, call, n, "complex128", False)
        r = fft_one(call, n, rng.choice([None, "complex128"]), "complex128", X)
        ref = _fft_formula(call, n, X)
        orc += 1
        if "err" in r or r["raw"].shape != ref.shape:
            err = float("inf")
        else:
            err = float(np.max(np.abs(r["raw"] - ref))) / max(1.0, float(np.max(np.abs(ref))))
            max_err = max(max_err, err)
        if not err <= FFT_TOL:
            orc_bad += 1
            if orc_bad <= 2:
                common.violation(ctx, {"stream": "FFT operator (tolerance side)", "call": call, "n": n, "tol": FFT_TOL, "rel_err": str(err),
                                       "x": None if X is None else [[float(np.real(z)), float(np.imag(z))] for z in X.ravel()],
                                       "x_shape": None if X is None else list(X.shape),
                                       "real": {k: v for k, v in r.items() if k != "raw"},
                                       "why": "cola.ops.FFT differs from the defining formula exp(-2 pi i jk/n)/sqrt(n) beyond the tolerance"})
    if sub_err is not None and not ctx.violations:
        common.violation(ctx, {"broken": f"Lean gate of {module}", "detail": sub_err[-3000:]}, no_input=True)
    samples = [dict(c, adt=m["adt"], xdt=m["xdt"]) for c, m in list(zip(cases, metas))[:3]]
    return {"fft_cases": len(cases), "fft_compared": sum(per_call.values()), "fft_not_compared": not_compared,
            "fft_disagreements": bad, "fft_distinct_nontrivial": len(seen), "fft_calls": dict(per_call),
            "fft_rule": "cola.ops.FFT(n) [dtype None / complex64 / complex128], n in {1, 4}, Gaussian-integer operands (entries in "
                        "[-3, 3], 1 to 3 columns / rows or 1-D, four operand dtypes), compared EXACTLY (value, shape) with the Lean "
                        "driver DriverFFT.lean (code model = specification = real); distinct = canonical JSON of (call, n, dtype, "
                        "operand); non-trivial = n = 4",
            "fft_samples": samples, "fft_oracle_cases": orc, "fft_oracle_disagreements": orc_bad,
            "fft_oracle_max_rel_err": max_err,
            "fft_oracle_rule": "n in {2, 3, 5, 8}, complex128: relative error <= 1e-12 against the defining formula (oracle only; the "
                               "theorems cover these n through C02_fft_complex_params, the exact correspondence does not)",
            "_sub_gate": sub, "_sub_module": module}


def fft_replay(ctx, rp):
    """--replay of a violation written by the exact side of fft_stream"""
    import numpy as np
    import oracle
    import shim  # noqa: F401
    c, m = dict(rp["case"]), rp["meta"]
    c["id"] = 0
    X = None
    if m.get("x_raw") is not None:
        X = np.array([complex(a, b) for a, b in m["x_raw"]]).reshape(m["x_shape"])
        X = X.astype(m["xdt"]) if np.dtype(m["xdt"]).kind == "c" else np.real(X).astype(m["xdt"])
    r = fft_one(c["call"], c["n"], m["adt"], m["xdt"], X)
    a = oracle.run_driver([c], driver=FFT_DRIVER).get(0, {})
    want_shape = [c["n"]] if m.get("vec") else [a.get("rows"), a.get("cols")]
    ok = a.get("code") == a.get("spec") and r.get("v") == a.get("spec") and r.get("shape") == want_shape
    rr = {k: v for k, v in r.items() if k != "raw"}
    print(json.dumps({"replayed": c, "status": "ok" if ok else "violation", "real": rr, "expected": a.get("spec")})[:2000])
    if not ok:
        common.violation(ctx, {"stream": "FFT operator", "case": c, "meta": m, "real": rr, "expected": a.get("spec"),
                               "expected_shape": want_shape, "why": rp.get("why")})


def c01_extra(ctx):
    cov = kernel_stream(ctx)
    cov.update(fft_stream(ctx))
    return cov


def run(ctx, calls=CALLS, module=MODULE, corpus=CORPUS, gen_kw=None, extra=None, provisional=None):
    if extra is None and module == MODULE:
        extra = c01_extra
    gate = None
    gate_err = None
    try:
        gate = common.lean_gate(ctx, module)
    except common.LeanGateError as ex:
        gate_err = str(ex)
    rng = random.Random(ctx.seed * 7919 + 17)
    G = gen.Gen(rng, max_extent=5 if not ctx.thorough else 6, **(gen_kw or {}))
    eng = treecheck.Engine(ctx, G, calls, provisional=provisional)
    if ctx.replay:
        rp = json.load(open(ctx.replay))
        if rp.get("stream") == "FFT operator":
            fft_replay(ctx, rp)
            return
        c = rp.get("case") or rp.get("original_case")
        c["id"] = 0
        for r in eng.evaluate([c]):
            eng.account(*r)
        print(json.dumps({"replayed": c, "status": [r[3] for r in eng.evaluate([c])]})[:2000])
    else:
        ts = []
        if os.path.exists(corpus):
            ts += [json.loads(l) for l in open(corpus) if l.strip()]
        n = 240 if not ctx.thorough else 4000
        ts += trees(ctx, G, n)
        batch = 400
        for i in range(0, len(ts), batch):
            eng.run(ts[i:i + batch])
    cov = eng.coverage()
    # cases that were NOT compared (driver errors, skipped, outside the exact range), with reasons; a stream of which more
    # than 2 % is not compared -- or in which no case was evaluated -- has not checked the property: VIOLATION without input
    oc = cov["outcomes"]
    n_eval = oc.get("evaluations", 0)
    n_nc = sum(oc.get(k, 0) for k in ("driver-error", "skipped", "inexact"))
    cov["not_compared"] = {"total": n_nc, "share": round(n_nc / max(1, n_eval), 5),
                           "reasons": dict(eng.not_compared.most_common(12)),
                           "sub_expressions_not_expanded": oc.get("skipped-not-wf", 0),
                           "limit": "more than 2 % not compared (or no case evaluated) ends the run with a VIOLATION"}
    if not ctx.replay and (n_eval == 0 or n_nc > 0.02 * n_eval or oc.get("skipped-not-wf", 0) > 0.02 * max(1, n_eval)):
        common.violation(ctx, {"broken": "correspondence stream of the operator-tree code model: too many cases were not compared",
                               "evaluations": n_eval, "not_compared": cov["not_compared"]}, no_input=True)
    if gate_err is not None:
        # the proofs no longer check: the correspondence stream above was the failing-input search
        if not ctx.violations:
            common.violation(ctx, {"broken": f"Lean gate of {module}", "detail": gate_err[-3000:]}, no_input=True)
    if extra is not None and not ctx.replay:
        cov.update(extra(ctx))
        sub, sub_module = cov.pop("_sub_gate", None), cov.pop("_sub_module", None)
        if sub and gate:
            # the audited theorems of the property sub-module (cola.ops.FFT) count as obligations of this property
            gate = dict(gate)
            gate["obligations"] += sub["obligations"]
            gate["discharged"] += sub["discharged"]
            gate["theorems"] = sorted(set(gate["theorems"]) | set(sub["theorems"]))
            gate["checker_cmd"] += " ; " + sub["checker_cmd"]
            cov["sub_modules"] = {sub_module: {"obligations": sub["obligations"], "discharged": sub["discharged"]}}
    cov["rule"] = ("type-directed random operator trees (gen.py) over all modelled kinds, generator depth parameter <= %d (the special "
                   "composites and the Hermitian / Gram wrappers add further levels: the measured depths are in `depths`), extents "
                   "<= %d, every node of every tree observed; distinct = canonical JSON of (expression, call, operand); non-trivial "
                   "= not a bare Identity/ScalarMul/Diagonal leaf" % (4 if ctx.thorough else 3, G.max_extent))
    common.write_evidence(ctx, gate, cov, assumptions=[
        "Jacobian, Hessian, ConvolveND are outside the model (autodiff / jax-only payloads); Kernel is "
        "modelled separately (Model/KernelOp.lean, theorems C01_kernel_matmat / C01_kernel_blocks_cover / C01_kernel_update, "
        "tied by the kernel stream of c01.py) and cannot be nested in a tree",
        "FFT is modelled separately (Model/FFTOp.lean: root w = exp(-2 pi i/n) and scale s = 1/sqrt(n) are PARAMETERS of the model; "
        "theorems in Properties/C01/FFT.lean and Properties/C02/FFT.lean for all n; C02_fft_complex_params: the hypotheses hold over "
        "the complex numbers for every n >= 1).  np.fft is trusted to compute the transform SUM it documents: the fft stream observes "
        "this exactly for n in {1, 4} (root and scale in Q[i]) and to 1e-12 for n in {2, 3, 5, 8}; an FFT node cannot be nested in a tree",
        "dtype: real = code model = specification.  Operator dtype: Op.dtype (constructors) = Op.dtypeSpec (join of the leaf "
        "dtypes), C01_dtype.  Result dtype of A @ X / X @ A: the code-model value is the RECURSIVE dtype model Op.mmDt / Op.rmmDt "
        "(Model/MatmatDtype.lean: per class what _matmat / _rmatmat does with dtypes), proved equal to promote_types(A.dtype, "
        "X.dtype) and to the specification Op.mmDtypeSpec for every well-formed tree (C01_result_dtype_model, "
        "C02_left_product_dtype_model); NumPy's promote_types is a third opinion in treecheck.observations",
        "a recorded clause of the indexing step explains a code/spec difference of A[ix, ix] entry by entry "
        "(treecheck.getitem_attribution): getitem-array-pair-outer only if the returned operator IS the outer selection, "
        "sliced-repeated-index only for entries in a repeated row / column position; a TREE-level clause of the operand only for an "
        "entry whose source entry differs in the operand's own code-model dense matrix (codeDense = Op.td / codeDenseR = I @ A, printed "
        "by the driver) and which inherits exactly that value (scalar / vector answers: the whole answer is NumPy indexing of that "
        "matrix); any other differing entry is a VIOLATION whatever clauses the tree carries",
        "floating-point results are compared exactly only where every intermediate is an exactly representable integer"])
    print(json.dumps({"outcomes": cov["outcomes"], "distinct_nontrivial": cov["distinct_nontrivial"],
                      "gate": (gate or {}).get("obligations")}))
