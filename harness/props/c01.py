"""C01 — an operator acts on arrays exactly as the matrix it represents."""
import json
import os
import random

import common
import gen
import treecheck

MODULE = "ColaVerif.Properties.C01"
CALLS = ["matmat", "dense"]
CORPUS = os.path.join(common.ROOT, "harness", "corpus", "c01.jsonl")


def trees(ctx, G, n):
    out = []
    rng = G.rng
    for _ in range(n):
        if rng.random() < 0.2:
            out.append(G.special(rng.choice([1, 2, 3])))
            continue
        r, c = G.shape()
        out.append(G.op(r, c, rng.choice([0, 1, 1, 2, 2, 3, 3] + ([4] if ctx.thorough else []))))
    return out


def kernel_stream(ctx):
    """Kernel operator (blocked on-the-fly product): real vs Lean model vs K @ V, exact integers"""
    import numpy as np
    import oracle
    import build
    import shim  # noqa: F401
    from cola.ops import Kernel
    rng = random.Random(ctx.seed * 13 + 1)
    cases, reals = [], []
    N = 60 if not ctx.thorough else 600
    for t in range(N):
        n, m, d = rng.randint(1, 7), rng.randint(1, 7), rng.randint(1, 2)
        bs1, bs2 = rng.randint(1, 9), rng.randint(1, 9)
        cplx = rng.random() < 0.3
        dt = rng.choice([np.complex64, np.complex128]) if cplx else rng.choice([np.float32, np.float64])
        x1 = np.array([[rng.randint(-2, 2) for _ in range(d)] for _ in range(n)], dtype=dt)
        x2 = np.array([[rng.randint(-2, 2) for _ in range(d)] for _ in range(m)], dtype=dt)
        if cplx:
            x1 = x1 * 1j
        b = rng.randint(1, 3)
        vdt = rng.choice([np.float32, np.float64, np.complex64])
        V = np.array([[rng.randint(-2, 2) for _ in range(b)] for _ in range(m)], dtype=vdt)
        Kmat = x1 @ x2.T
        cases.append({"id": t, "call": "kernel", "K": build.exact_mat(Kmat), "x": build.exact_mat(V), "n": n, "m": m, "bs1": bs1, "bs2": bs2})
        try:
            Kop = Kernel(x1, x2, lambda a, c: a @ c.T, bs1, bs2)
            out = Kop @ V
            reals.append({"v": build.exact_mat(out), "shape": list(out.shape), "dt": str(out.dtype), "want_dt": str(np.promote_types(dt, vdt))})
        except Exception as ex:  # noqa: BLE001
            reals.append({"err": f"{type(ex).__name__}: {str(ex)[:100]}"})
    ans = oracle.run_driver(cases)
    bad = 0
    for c, r in zip(cases, reals):
        a = ans.get(c["id"], {})
        ok_model = a.get("code") == a.get("spec")
        ok_real = r.get("v") == a.get("spec") and r.get("dt") == r.get("want_dt")
        if ok_model and ok_real:
            continue
        bad += 1
        if bad <= 2:
            if not ok_real and ok_model:
                common.violation(ctx, {"stream": "Kernel operator", "case": c, "real": r, "expected": a.get("spec"),
                                       "why": "Kernel @ V differs from fn(x1, x2) @ V (value, shape or promoted dtype)"})
            else:
                common.violation(ctx, {"broken": "Kernel block-loop model differs from its specification", "case": c, "answer": a}, no_input=True)
    return {"kernel_cases": len(cases), "kernel_disagreements": bad}


def run(ctx, calls=CALLS, module=MODULE, corpus=CORPUS, gen_kw=None, extra=None, provisional=None):
    if extra is None and module == MODULE:
        extra = kernel_stream
    gate = None
    gate_err = None
    try:
        gate = common.lean_gate(ctx, module)
    except common.LeanGateError as ex:
        gate_err = str(ex)
    rng = random.Random(ctx.seed * 7919 + 17)
    G = gen.Gen(rng, max_extent=5 if not ctx.thorough else 6, **(gen_kw or {}))
    eng = treecheck.Engine(ctx, G, calls, provisional=provisional)
    if ctx.replay:
        rp = json.load(open(ctx.replay))
        c = rp.get("case") or rp.get("original_case")
        c["id"] = 0
        for r in eng.evaluate([c]):
            eng.account(*r)
        print(json.dumps({"replayed": c, "status": [r[3] for r in eng.evaluate([c])]})[:2000])
    else:
        ts = []
        if os.path.exists(corpus):
            ts += [json.loads(l) for l in open(corpus) if l.strip()]
        n = 240 if not ctx.thorough else 4000
        ts += trees(ctx, G, n)
        batch = 400
        for i in range(0, len(ts), batch):
            eng.run(ts[i:i + batch])
    if gate_err is not None:
        # the proofs no longer check: the correspondence stream above was the failing-input search
        if not ctx.violations:
            common.violation(ctx, {"broken": f"Lean gate of {module}", "detail": gate_err[-3000:]}, no_input=True)
    cov = eng.coverage()
    if extra is not None and not ctx.replay:
        cov.update(extra(ctx))
    cov["rule"] = ("type-directed random operator trees (gen.py) over all modelled kinds, depth <= %d, extents <= %d, every node of "
                   "every tree observed; distinct = canonical JSON of (expression, call, operand); non-trivial = not a bare "
                   "Identity/ScalarMul/Diagonal leaf" % (4 if ctx.thorough else 3, G.max_extent))
    common.write_evidence(ctx, gate, cov, assumptions=[
        "Jacobian, Hessian, ConvolveND, FFT are outside the model (autodiff / jax-only / transcendental payloads); Kernel is "
        "modelled separately (Model/KernelOp.lean, C01's kernel stream) and cannot be nested in a tree",
        "dtype: real = code model (Op.dtype, Op.mmDtype) = specification (Op.dtypeSpec, Op.mmDtypeSpec: join of the leaf dtypes "
        "and the operand dtype), proved equal for every tree (C01_dtype, C01_result_dtype, C02_tower_dtype)",
        "floating-point results are compared exactly only where every intermediate is an exactly representable integer"])
    print(json.dumps({"outcomes": cov["outcomes"], "distinct_nontrivial": cov["distinct_nontrivial"],
                      "gate": (gate or {}).get("obligations")}))
