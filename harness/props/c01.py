"""C01 — an operator acts on arrays exactly as the matrix it represents."""
import json
import os
import random

import common
import gen
import treecheck

MODULE = "ColaVerif.Properties.C01"
CALLS = ["matmat", "dense"]
CORPUS = os.path.join(common.ROOT, "harness", "corpus", "c01.jsonl")


def trees(ctx, G, n):
    out = []
    rng = G.rng
    for _ in range(n):
        if rng.random() < 0.2:
            out.append(G.special(rng.choice([1, 2, 3])))
            continue
        r, c = G.shape()
        out.append(G.op(r, c, rng.choice([0, 1, 1, 2, 2, 3, 3] + ([4] if ctx.thorough else []))))
    return out


def kernel_stream(ctx):
    """Kernel operator (blocked on-the-fly product): real vs Lean model vs K @ V, exact integers"""
    import numpy as np
    import oracle
    import build
    import shim  # noqa: F401
    from cola.ops import Kernel
    rng = random.Random(ctx.seed * 13 + 1)
    cases, reals = [], []
    N = 60 if not ctx.thorough else 600
    for t in range(N):
        n, m, d = rng.randint(1, 7), rng.randint(1, 7), rng.randint(1, 2)
        bs1, bs2 = rng.randint(1, 9), rng.randint(1, 9)
        cplx = rng.random() < 0.3
        dt = rng.choice([np.complex64, np.complex128]) if cplx else rng.choice([np.float32, np.float64])
        x1 = np.array([[rng.randint(-2, 2) for _ in range(d)] for _ in range(n)], dtype=dt)
        x2 = np.array([[rng.randint(-2, 2) for _ in range(d)] for _ in range(m)], dtype=dt)
        if cplx:
            x1 = x1 * 1j
        b = rng.randint(1, 3)
        vdt = rng.choice([np.float32, np.float64, np.complex64])
        V = np.array([[rng.randint(-2, 2) for _ in range(b)] for _ in range(m)], dtype=vdt)
        Kmat = x1 @ x2.T
        cases.append({"id": t, "call": "kernel", "K": build.exact_mat(Kmat), "x": build.exact_mat(V), "n": n, "m": m, "bs1": bs1, "bs2": bs2})
        try:
            Kop = Kernel(x1, x2, lambda a, c: a @ c.T, bs1, bs2)
            out = Kop @ V
            reals.append({"v": build.exact_mat(out), "shape": list(out.shape), "dt": str(out.dtype), "want_dt": str(np.promote_types(dt, vdt))})
        except Exception as ex:  # noqa: BLE001
            reals.append({"err": f"{type(ex).__name__}: {str(ex)[:100]}"})
    ans = oracle.run_driver(cases)
    bad = 0
    for c, r in zip(cases, reals):
        a = ans.get(c["id"], {})
        ok_model = a.get("code") == a.get("spec")
        ok_real = r.get("v") == a.get("spec") and r.get("dt") == r.get("want_dt")
        if ok_model and ok_real:
            continue
        bad += 1
        if bad <= 2:
            if not ok_real and ok_model:
                common.violation(ctx, {"stream": "Kernel operator", "case": c, "real": r, "expected": a.get("spec"),
                                       "why": "Kernel @ V differs from fn(x1, x2) @ V (value, shape or promoted dtype)"})
            else:
                common.violation(ctx, {"broken": "Kernel block-loop model differs from its specification", "case": c, "answer": a}, no_input=True)
    return {"kernel_cases": len(cases), "kernel_disagreements": bad}


def run(ctx, calls=CALLS, module=MODULE, corpus=CORPUS, gen_kw=None, extra=None, provisional=None):
    if extra is None and module == MODULE:
        extra = kernel_stream
    gate = None
    gate_err = None
    try:
        gate = common.lean_gate(ctx, module)
    except common.LeanGateError as ex:
        gate_err = str(ex)
    rng = random.Random(ctx.seed * 7919 + 17)
    G = gen.Gen(rng, max_extent=5 if not ctx.thorough else 6, **(gen_kw or {}))
    eng = treecheck.Engine(ctx, G, calls, provisional=provisional)
    if ctx.replay:
        rp = json.load(open(ctx.replay))
        c = rp.get("case") or rp.get("original_case")
        c["id"] = 0
        for r in eng.evaluate([c]):
            eng.account(*r)
        print(json.dumps({"replayed": c, "status": [r[3] for r in eng.evaluate([c])]})[:2000])
    else:
        ts = []
        if os.path.exists(corpus):
            ts += [json.loads(l) for l in open(corpus) if l.strip()]
        n = 240 if not ctx.thorough else 4000
        ts += trees(ctx, G, n)
        batch = 400
        for i in range(0, len(ts), batch):
            eng.run(ts[i:i + batch])
    cov = eng.coverage()
    # cases that were NOT compared (driver errors, skipped, outside the exact range), with reasons; a stream of which more
    # than 2 % is not compared -- or in which no case was evaluated -- has not checked the property: VIOLATION without input
    oc = cov["outcomes"]
    n_eval = oc.get("evaluations", 0)
    n_nc = sum(oc.get(k, 0) for k in ("driver-error", "skipped", "inexact"))
    cov["not_compared"] = {"total": n_nc, "share": round(n_nc / max(1, n_eval), 5),
                           "reasons": dict(eng.not_compared.most_common(12)),
                           "sub_expressions_not_expanded": oc.get("skipped-not-wf", 0),
                           "limit": "more than 2 % not compared (or no case evaluated) ends the run with a VIOLATION"}
    if not ctx.replay and (n_eval == 0 or n_nc > 0.02 * n_eval or oc.get("skipped-not-wf", 0) > 0.02 * max(1, n_eval)):
        common.violation(ctx, {"broken": "correspondence stream of the operator-tree code model: too many cases were not compared",
                               "evaluations": n_eval, "not_compared": cov["not_compared"]}, no_input=True)
    if gate_err is not None:
        # the proofs no longer check: the correspondence stream above was the failing-input search
        if not ctx.violations:
            common.violation(ctx, {"broken": f"Lean gate of {module}", "detail": gate_err[-3000:]}, no_input=True)
    if extra is not None and not ctx.replay:
        cov.update(extra(ctx))
    cov["rule"] = ("type-directed random operator trees (gen.py) over all modelled kinds, generator depth parameter <= %d (the special "
                   "composites and the Hermitian / Gram wrappers add further levels: the measured depths are in `depths`), extents "
                   "<= %d, every node of every tree observed; distinct = canonical JSON of (expression, call, operand); non-trivial "
                   "= not a bare Identity/ScalarMul/Diagonal leaf" % (4 if ctx.thorough else 3, G.max_extent))
    common.write_evidence(ctx, gate, cov, assumptions=[
        "Jacobian, Hessian, ConvolveND, FFT are outside the model (autodiff / jax-only / transcendental payloads); Kernel is "
        "modelled separately (Model/KernelOp.lean, theorems C01_kernel_matmat / C01_kernel_blocks_cover / C01_kernel_update, "
        "tied by the kernel stream of c01.py) and cannot be nested in a tree",
        "dtype: real = code model = specification.  Operator dtype: Op.dtype (constructors) = Op.dtypeSpec (join of the leaf "
        "dtypes), C01_dtype.  Result dtype of A @ X / X @ A: the code-model value is the RECURSIVE dtype model Op.mmDt / Op.rmmDt "
        "(Model/MatmatDtype.lean: per class what _matmat / _rmatmat does with dtypes), proved equal to promote_types(A.dtype, "
        "X.dtype) and to the specification Op.mmDtypeSpec for every well-formed tree (C01_result_dtype_model, "
        "C02_left_product_dtype_model); NumPy's promote_types is a third opinion in treecheck.observations",
        "a recorded clause of the indexing step explains a code/spec difference of A[ix, ix] entry by entry "
        "(treecheck.getitem_attribution): getitem-array-pair-outer only if the returned operator IS the outer selection, "
        "sliced-repeated-index only for entries in a repeated row / column position; a TREE-level clause of the operand only for an "
        "entry whose source entry differs in the operand's own code-model dense matrix (codeDense = Op.td / codeDenseR = I @ A, printed "
        "by the driver) and which inherits exactly that value (scalar / vector answers: the whole answer is NumPy indexing of that "
        "matrix); any other differing entry is a VIOLATION whatever clauses the tree carries",
        "floating-point results are compared exactly only where every intermediate is an exactly representable integer"])
    print(json.dumps({"outcomes": cov["outcomes"], "distinct_nontrivial": cov["distinct_nontrivial"],
                      "gate": (gate or {}).get("obligations")}))
