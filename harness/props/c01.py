"""C01 — an operator acts on arrays exactly as the matrix it represents."""
import json
import os
import random

import common
import gen
import treecheck

MODULE = "ColaVerif.Properties.C01"
CALLS = ["matmat", "dense"]
CORPUS = os.path.join(common.ROOT, "harness", "corpus", "c01.jsonl")


def trees(ctx, G, n):
    out = []
    rng = G.rng
    for _ in range(n):
        r, c = G.shape()
        out.append(G.op(r, c, rng.choice([0, 1, 1, 2, 2, 3, 3] + ([4] if ctx.thorough else []))))
    return out


def run(ctx, calls=CALLS, module=MODULE, corpus=CORPUS, gen_kw=None, extra=None):
    gate = None
    gate_err = None
    try:
        gate = common.lean_gate(ctx, module)
    except common.LeanGateError as ex:
        gate_err = str(ex)
    rng = random.Random(ctx.seed * 7919 + 17)
    G = gen.Gen(rng, max_extent=4 if not ctx.thorough else 6, **(gen_kw or {}))
    eng = treecheck.Engine(ctx, G, calls)
    if ctx.replay:
        rp = json.load(open(ctx.replay))
        c = rp.get("case") or rp.get("original_case")
        c["id"] = 0
        for r in eng.evaluate([c]):
            eng.account(*r)
        print(json.dumps({"replayed": c, "status": [r[3] for r in eng.evaluate([c])]})[:2000])
    else:
        ts = []
        if os.path.exists(corpus):
            ts += [json.loads(l) for l in open(corpus) if l.strip()]
        n = 120 if not ctx.thorough else 4000
        ts += trees(ctx, G, n)
        batch = 400
        for i in range(0, len(ts), batch):
            eng.run(ts[i:i + batch])
    if gate_err is not None:
        # the proofs no longer check: the correspondence stream above was the failing-input search
        if not ctx.violations:
            common.violation(ctx, {"broken": f"Lean gate of {module}", "detail": gate_err[-3000:]}, no_input=True)
    cov = eng.coverage()
    if extra is not None and not ctx.replay:
        cov.update(extra(ctx))
    cov["rule"] = ("type-directed random operator trees (gen.py) over all modelled kinds, depth <= %d, extents <= %d, every node of "
                   "every tree observed; distinct = canonical JSON of (expression, call, operand); non-trivial = not a bare "
                   "Identity/ScalarMul/Diagonal leaf" % (4 if ctx.thorough else 3, G.max_extent))
    common.write_evidence(ctx, gate, cov, assumptions=[
        "Jacobian, Hessian, ConvolveND, Kernel, FFT are outside the model (autodiff / jax-only / transcendental payloads)",
        "floating-point results are compared exactly only where every intermediate is an exactly representable integer"])
    print(json.dumps({"outcomes": cov["outcomes"], "distinct_nontrivial": cov["distinct_nontrivial"],
                      "gate": (gate or {}).get("obligations")}))
