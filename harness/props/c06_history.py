"""C06, history part of "`inv(A) @ b` satisfies A x = b on EVERY product": a lazy inverse that is kept and applied again must
solve the system it is given THEN — whatever it was applied to before, and whatever the caller did in place to the
right-hand-side buffer or to an earlier result in between (seeded change c06_m4: a one-entry cache in
`IterativeOperatorWInfo._matmat` keyed by object identity of the operand, handing out the array it had returned before).

Histories: an inverse object (CG / GMRES / Auto on the large side / direct paths), a 2-D right-hand side held by the
caller, then any of: apply, overwrite the right-hand side in place, scale the previous result in place, apply again.
After every apply: relative residual of the returned array against the CURRENT right-hand side (whether the returned
array is one handed out before is recorded in the replay, it is not by itself a violation).  The residual bound is 1e3 x the solver's tolerance on operators with condition
number <= 50 (CG/GMRES stop at tol * |b|; the true residual follows the tracked one to rounding: C12/C13), 1e-9 for the
direct paths."""
import numpy as np


def history_stream(ctx, rng):
    import shim  # noqa: F401
    import cola
    nprng = np.random.default_rng(rng.getrandbits(32))
    problems, samples, checks = [], [], 0
    rounds = 8 if not ctx.thorough else 60
    for t in range(rounds):
        cplx = rng.random() < 0.3
        n = rng.choice([5, 8, 12, 20])
        Q = np.linalg.qr(nprng.standard_normal((n, n)) + (1j * nprng.standard_normal((n, n)) if cplx else 0))[0]
        d = np.geomspace(1.0, rng.choice([2.0, 10.0, 50.0]), n)
        A = (Q * d) @ Q.conj().T
        A = (A + A.conj().T) / 2
        which = rng.choice(["cg", "cg", "gmres", "chol", "lu", "auto-large"])
        tol = rng.choice([1e-6, 1e-8])
        if which == "auto-large":
            n = 1001
            dd = np.linspace(1.0, 4.0, n)
            Aop = cola.PSD(cola.ops.LinearOperator(np.float64, (n, n), matmat=lambda X, dd=dd: dd[:, None] * X))
            A, cplx = np.diag(dd), False
            Ainv, bound = cola.linalg.inv(Aop, cola.linalg.Auto(tol=tol, max_iters=200)), 1e3 * tol
        elif which == "cg":
            Ainv, bound = cola.linalg.inv(cola.PSD(cola.ops.Dense(A)), cola.linalg.CG(tol=tol, max_iters=20 * n)), 1e3 * tol
        elif which == "gmres":
            G = A + 0.3 * np.triu(nprng.standard_normal((n, n)), 1)
            A = G
            Ainv, bound = cola.linalg.inv(cola.ops.Dense(A), cola.linalg.GMRES(tol=tol, max_iters=n)), 1e3 * max(tol, 1e-7)
        elif which == "chol":
            Ainv, bound = cola.linalg.inv(cola.PSD(cola.ops.Dense(A)), cola.linalg.Cholesky()), 1e-9
        else:
            Ainv, bound = cola.linalg.inv(cola.ops.Dense(A), cola.linalg.LU()), 1e-9
        k = rng.choice([1, 2, 3])
        dt = A.dtype if which != "auto-large" else np.float64
        X = (nprng.standard_normal((n, k)) + (1j * nprng.standard_normal((n, k)) if cplx else 0)).astype(dt)
        handed, hist, last = [], [], None
        ops = ["apply"] + [rng.choice(["apply", "refill", "scale-result", "apply"]) for _ in range(rng.randint(3, 6))] + ["apply"]
        for op in ops:
            hist.append(op)
            if op == "refill":
                X[...] = (nprng.standard_normal(X.shape) + (1j * nprng.standard_normal(X.shape) if cplx else 0)).astype(dt)
                continue
            if op == "scale-result":
                if last is not None and isinstance(last, np.ndarray) and last.flags.writeable:
                    last *= 3.0
                continue
            Y = Ainv @ X
            checks += 1
            Y = np.asarray(Y)
            res = np.linalg.norm((A @ Y if which != "auto-large" else dd[:, None] * Y) - X) / max(np.linalg.norm(X), 1e-300)
            alias = any(Y is h for h in handed)
            if not (res <= bound):      # an aliased result alone is not a violation of C06 (it is recorded in the replay)
                problems.append({"what": "a kept inverse returned an array that does not solve the CURRENT system",
                                 "returned_array_is_one_handed_out_before": bool(alias),
                                 "alg": which, "tol": tol, "n": n, "columns": k, "complex": cplx, "history": hist[:],
                                 "relative_residual": float(res), "bound": bound})
                break
            handed.append(Y)
            last = Y
        if len(samples) < 3:
            samples.append({"alg": which, "n": n, "history": hist})
    return checks, problems, samples
