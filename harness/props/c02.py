"""C02 — transpose, adjoint and left-multiplication agree with the represented matrix."""
import os

import common
from props import c01

MODULE = "ColaVerif.Properties.C02"
CALLS = ["rmatmat", "tower"]
CORPUS = os.path.join(common.ROOT, "harness", "corpus", "c02.jsonl")


def run(ctx):
    c01.run(ctx, calls=CALLS, module=MODULE, corpus=CORPUS)
