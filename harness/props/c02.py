"""C02 — transpose, adjoint and left-multiplication agree with the represented matrix."""
import os

import common
from props import c01

MODULE = "ColaVerif.Properties.C02"
CALLS = ["rmatmat", "tower"]
CORPUS = os.path.join(common.ROOT, "harness", "corpus", "c02.jsonl")


FFT_MODULE = "ColaVerif.Properties.C02.FFT"
FFT_CALLS = ["rmatmat", "T_matmat", "T_rmatmat", "H_matmat", "H_rmatmat", "T_dense", "H_dense", "unitary"]


def fft_stream(ctx):
    """cola.ops.FFT: `X @ A`, the lazy Transpose / Adjoint wrappers and the annotation Unitary (stream of c01.py, C02 calls);
    gates the property sub-module Properties/C02/FFT.lean"""
    return c01.fft_stream(ctx, calls=FFT_CALLS, module=FFT_MODULE)


def run(ctx):
    c01.run(ctx, calls=CALLS, module=MODULE, corpus=CORPUS, extra=fft_stream)
