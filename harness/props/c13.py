"""C13 — GMRES returns the residual-minimising iterate of its Krylov space.

Three-way check per case:  real  = cola.linalg.inverse.gmres.gmres on a product-counting operator,
                           model = the Lean code model `GMRES.gmresCore` (DriverArnoldi.lean, IEEE doubles),
                           spec  = dense oracle: the true residual minimiser over x0 + K_m(A, r0) (NumPy lstsq on an
                                   orthonormal Krylov basis), evaluated against the REAL output.

Property statements tested on the real output, per column: residual <= initial residual; residual non-increasing in m
(the case is re-run with m-1); residual zero (to rounding) at m >= grade / n; iterate = minimiser; products with the operator.

Tolerances (`compare: "tol"`): real vs model |dx| <= 1e-8*max(1,|x|) + 1e3*eps*cond(G)*|x| where G = H~[:, keep]^H H~[:, keep] is the
normal matrix gmres_fwd solves (H~ the (m+1) x m Hessenberg matrix, `keep` the complement of its COLUMN-wise padding mask — mirrors
cola/linalg/inverse/gmres.py after commit 9a9bf4d), so LAPACK vs Gaussian elimination differ by eps*cond(H~[:, keep])^2;
spec: relative 1e-7 on residual norms (+ 1e-9*|b| absolute), 1e-6 on iterates.  Matrices as in c15.py (well-conditioned
eigenbases, spectra on an annulus away from 0).
"""
import json
import os
import random
import warnings

import numpy as np

import common
from props import c15 as K

warnings.simplefilter("ignore")

MODULE = "ColaVerif.Properties.C13"
EPS = K.EPS

# Clauses of modelled defects are taken from /verif/known_findings.json (`common.known_clauses`); nothing is provisional.
# Recorded for C13: maskExact, zeroResidual, noClip, stopExact, breakdownNotMasked (floating point only).  Every one of them is
# PRODUCED by this module on a concrete input of the current tree (hand-made stream S, `special_cases`): the KNOWN-FINDING line
# is printed when the case is hit, and `clause_witnesses` in the evidence lists which hand-made case produced which clause.
# Former defect (b) (`keepLastRow`) is repaired in /repo (commit 9a9bf4d) and `GMRES.dropLastRow = false` mirrors it; the clause
# name is still produced by the oracle so that a regression shows up as a VIOLATION.
# The former mixed-dtype defect (Krylov buffers in the operator's dtype lost the imaginary part of a complex right-hand side) is
# repaired in /repo (commit a98c0be): stream D goes through the NORMAL three-way comparison, there is no excuse path for it.
PROVISIONAL_KNOWN = set()

WHAT = {
    "keepLastRow": "gmres_fwd drops the last row of the Hessenberg matrix (`H[:, :-1, :]`): it solves the square system "
                   "H_m y = beta e1 (Galerkin/FOM iterate) instead of min |beta e1 - H~_m y|: the residual is not minimal, can exceed "
                   "the initial residual and grow with m; a singular H_m raises LinAlgError",
    "zeroResidual": "a column whose initial residual b - A x0 is exactly zero (b = 0 or x0 exact) is divided by its norm 0 in "
                    "init_arnoldi: the returned solution is NaN",
    "maskExact": "the padding mask of gmres_fwd (columns of the (m+1) x m Hessenberg matrix with max |entry| < 10*tol*overall max) is a "
                 "magnitude heuristic tied to tol: at larger tol it also masks columns of *executed* steps whose entries are small "
                 "relative to the largest entry, zeroes that coefficient and regularises the column: wrong iterate although m >= grade",
    "noClip": "arnoldi_fact normalises with clip(norm, tol/2), an absolute floor: for an operator of small norm every step norm is below "
              "tol/2, the Krylov vectors are not unit vectors while H records the true norms, and the least-squares problem GMRES "
              "solves no longer represents the residual: wrong iterate (residual O(1) at m = n)",
    "stopExact": "the Arnoldi loop stops by its tolerance test (norm <= tol*H[1,0]) before max_iters and before the Krylov space is "
                 "exhausted: the iterate minimises over K_s with s < min(m, grade) only, so the residual is not zero at m >= n and not "
                 "minimal over K_m (C13_steps: s = min(max_iters, n, first index at which the test fires); C13_krylov_optimal is about K_s, "
                 "C13_krylov_optimal_at_cap / C13_exact_at_grade_of_inputs give K_min(m,n) / zero residual when the test does not fire early)",
    "breakdownNotMasked": "floating point only: a column whose Krylov space is exhausted keeps being stepped (batch, or breakdown in the "
                          "first step); amplified rounding noise enters H and the padding mask",
}


# ------------------------------------------------------------------ generators
def make_case(g, n, cls, cplx, M, tol, rhs_kinds, x0_kind, single, stream="A", special=None):
    A, X, blocks = K.gen_matrix(g, n, cls, cplx)
    k = len(rhs_kinds)
    if x0_kind == "zero":
        X0 = np.zeros((k, n), dtype=complex if cplx else float)
    else:
        X0 = g.standard_normal((k, n)) + (1j * g.standard_normal((k, n)) if cplx else 0)
    R0, grades = [], []
    for s in rhs_kinds:
        r, gr = K.gen_start(g, n, X, blocks, cplx, s)
        R0.append(r)
        grades.append(gr)
    R0 = np.stack(R0)
    B = R0 + X0 @ A.T                                   # so that b - A x0 = r0 has the intended grade
    if special == "zero-column":
        B[-1] = 0.0
        X0[-1] = 0.0
        grades[-1] = 0
    return {"kind": "gmres", "complex": bool(cplx), "n": n, "M": M, "tol": tol, "cls": cls, "rhs": list(rhs_kinds),
            "x0": x0_kind, "grades": grades, "single": bool(single and k == 1), "stream": stream,
            "A": K.tojson(A), "B": K.tojson(B), "X0": K.tojson(X0)}


def special_cases():
    """small integer systems: exact breakdowns / exact zero residuals / singular Galerkin matrices"""
    out = []
    eye3 = np.eye(3)
    base = {"kind": "gmres", "complex": False, "cls": "special", "rhs": ["special"], "x0": "given", "stream": "S", "single": True}
    # x0 already exact: residual exactly 0
    out.append(dict(base, n=3, M=2, tol=1e-7, grades=[0], A=K.tojson(eye3), B=K.tojson(np.array([[1., 0, 0]])), X0=K.tojson(np.array([[1., 0, 0]]))))
    # b = 0
    out.append(dict(base, n=3, M=2, tol=1e-7, grades=[0], A=K.tojson(2 * eye3), B=K.tojson(np.zeros((1, 3))), X0=K.tojson(np.zeros((1, 3)))))
    # a batch whose column 0 has an exact x0 (zero residual -> NaN in THAT column only) next to an ordinary column: the ordinary column
    # must satisfy every statement of the property (per-column attribution of clause zeroResidual)
    Az = np.array([[2., 1., 0.], [1., 3., 1.], [0., 1., 4.]])
    Xz = np.array([[1., 2., 3.], [0., 0., 0.]])
    out.append(dict(base, n=3, M=3, tol=1e-7, grades=[0, 3], rhs=["special"] * 2, single=False, A=K.tojson(Az),
                    B=K.tojson(np.stack([Az @ Xz[0], np.array([1., 0., 0.])])), X0=K.tojson(Xz)))
    # the 2x2 witness of the Lean theorem C13_dropped_row_witness (regression detector `keepLastRow`): A = [[1,2],[0,1]], b = e2, m = 1: FOM residual 2 > 1 = |r0|
    out.append(dict(base, n=2, M=1, tol=1e-7, grades=[2], A=K.tojson(np.array([[1., 2.], [0., 1.]])), B=K.tojson(np.array([[0., 1.]])), X0=K.tojson(np.zeros((1, 2)))))
    # singular Galerkin matrix: A = [[0,1],[1,1]], b = e1, m = 1: H_1 = [0]
    out.append(dict(base, n=2, M=1, tol=1e-7, grades=[2], A=K.tojson(np.array([[0., 1.], [1., 1.]])), B=K.tojson(np.array([[1., 0.]])), X0=K.tojson(np.zeros((1, 2)))))
    # padding mask hits an executed step: H = [[1,0],[.05,.05]], row 1 below 10*tol*max = 0.1 (tol = 1e-2); and the 1x1 witness
    # of C13_maskExact_clause_needed (tol = 0.2 masks the only row)
    out.append(dict(base, n=2, M=2, tol=1e-2, grades=[2], A=K.tojson(np.array([[1., 0.], [0.05, 0.05]])), B=K.tojson(np.array([[1., 0.]])), X0=K.tojson(np.zeros((1, 2)))))
    out.append(dict(base, n=1, M=1, tol=0.2, grades=[1], A=K.tojson(np.array([[2.]])), B=K.tojson(np.array([[1.]])), X0=K.tojson(np.zeros((1, 1)))))
    # a batch whose columns see parts of the spectrum of very different scale (block-diagonal operator, one column per block, scale
    # ratio 1e8 > 1/(10 tol)): the padding threshold of the normal equations is per column, a batch-wide one masks the genuine
    # Hessenberg columns of the small-scale right-hand side (seeded change c13_m4).  Grade 2 with m = 2, and grade 3 truncated at m = 2.
    A1, A2 = np.array([[2., 1.], [1., 3.]]), np.array([[3., 1.], [2., 4.]])
    Ablk = np.zeros((4, 4)); Ablk[:2, :2] = A1; Ablk[2:, 2:] = 1e8 * A2
    out.append(dict(base, n=4, M=2, tol=1e-7, grades=[2, 2], rhs=["special"] * 2, single=False, A=K.tojson(Ablk),
                    B=K.tojson(np.array([[1., 1., 0., 0.], [0., 0., 1., 1.]])), X0=K.tojson(np.zeros((2, 4)))))
    B1, B2 = np.array([[2., 1., 0.], [1., 3., 1.], [0., 1., 4.]]), np.array([[4., 1., 0.], [2., 3., 1.], [0., 1., 5.]])
    Ablk6 = np.zeros((6, 6)); Ablk6[:3, :3] = B1; Ablk6[3:, 3:] = 1e8 * B2
    for Mm in (1, 2, 3):
        out.append(dict(base, n=6, M=Mm, tol=1e-7, grades=[3, 3], rhs=["special"] * 2, single=False, A=K.tojson(Ablk6),
                        B=K.tojson(np.array([[1., 0., 1., 0., 0., 0.], [0., 0., 0., 1., 1., 0.]])), X0=K.tojson(np.zeros((2, 6)))))
    # noClip: an operator of norm ~1e-9 with tol = 1e-7: every step norm is below the absolute floor tol/2
    out.append(dict(base, n=3, M=3, tol=1e-7, grades=[3], witness_of="noClip", A=K.tojson(1e-9 * np.array([[3., 1., 0.], [2., 3., 1.], [0., 1., 4.]])),
                    B=K.tojson(np.array([[1., 0., 0.]])), X0=K.tojson(np.zeros((1, 3)))))
    # stopExact: weak coupling 8e-4 to the third coordinate, tol = 1e-3: the loop stops after two steps (norm 8e-4 <= tol*H[1,0] = 1e-3,
    # and 8e-4 >= tol/2: no clip), although the grade is 3 = n = max_iters
    for nn, dlt in ((3, 8e-4), (4, 7e-4)):
        Aw = np.diag(np.arange(1., nn + 1)) + np.diag(np.ones(nn - 1), -1)
        Aw[nn - 1, nn - 2] = dlt
        Bw = np.zeros((1, nn)); Bw[0, 0] = 1.0
        out.append(dict(base, n=nn, M=nn, tol=1e-3, grades=[nn], witness_of="stopExact", A=K.tojson(Aw), B=K.tojson(Bw), X0=K.tojson(np.zeros((1, nn)))))
    # breakdownNotMasked (floating point only): every column of the identity has a Krylov space of dimension < 4 for this integer
    # matrix; the batch keeps stepping the exhausted columns (witness recorded for C06 gmres-krylov-breakdown, tol = 1e-10)
    Ab = np.array([[-1., 1., -1., -3.], [-1., 0., 0., 0.], [0., 1., 0., -1.], [0., -1., 1., 2.]])
    out.append(dict(base, n=4, M=4, tol=1e-10, grades=[3, 3, 3, 3], rhs=["special"] * 4, single=False, witness_of="breakdownNotMasked",
                    A=K.tojson(Ab), B=K.tojson(np.eye(4)), X0=K.tojson(np.zeros((4, 4)))))
    return out


def stream(ctx, g):
    out = []
    nmax = 12 if not ctx.thorough else 40
    reps = 5 if not ctx.thorough else 40
    tols = [1e-7, 1e-5, 1e-8, 1e-3]
    for rep in range(reps):
        ns = list(range(1, nmax + 1)) if not ctx.thorough else [1, 2, 3, 4, 5, 6, 8, 10, 12, 16, 20, 25, 32, 40]
        for n in ns:
            Ms = list(range(1, n + 4)) if n <= 12 else sorted(set([1, 2, 3, n // 2, n - 1, n, n + 1, n + 3]))
            for M in Ms:
                cls = K.CLASSES[int(g.integers(len(K.CLASSES)))]
                cplx = bool(g.integers(2))
                r = int(g.integers(10))
                if r < 5:
                    kinds, single = [["generic"], ["eig2"], ["eig3"], ["eigvec"], ["generic"]][r], True
                elif r < 8:
                    kinds, single = [["generic", "generic"], ["generic", "eig2", "generic"], ["eig3", "generic"]][r - 5], False
                else:
                    kinds, single = [["generic"], ["eig2"]][r - 8], False          # one column passed as an (n, 1) array
                x0 = "zero" if g.integers(2) else "random"
                out.append(make_case(g, n, cls, cplx, M, tols[int(g.integers(len(tols)))], kinds, x0, single))
        for n in [3, 5, 8]:
            out.append(make_case(g, n, "nonsym", bool(g.integers(2)), n, 1e-7, ["generic", "generic"], "zero", False, stream="S", special="zero-column"))
    # E. the sizes of the property text (n up to 150), once per run
    big = [(32, 32, False), (64, 40, True)] if not ctx.thorough else \
        [(64, 64, False), (64, 20, True), (100, 103, True), (100, 50, False), (150, 150, False), (150, 60, True)]
    for n, M, cplx in big:
        out.append(make_case(g, n, K.CLASSES[int(g.integers(len(K.CLASSES)))], cplx, M, 1e-7, ["generic"], "random" if n % 2 else "zero", True, stream="E"))
    # C. operators of norm 1e-9 (every Arnoldi step norm is below the absolute floor tol/2: clause noClip)
    for n in [2, 4, 6]:
        c = make_case(g, n, "nonsym", bool(g.integers(2)), n, 1e-7, ["generic"], "zero", True, stream="C")
        c["A"] = K.tojson(1e-9 * K.fromjson(c["A"], c["complex"]))
        out.append(c)
    for n in [2, 4, 6]:       # real operator, complex right-hand side (dtype promotion)
        c = make_case(g, n, "nonsym", True, n, 1e-7, ["generic"], "zero", True, stream="D")
        c["A"] = K.tojson(K.fromjson(c["A"], True).real.astype(complex))
        c["B"] = K.tojson(K.fromjson(c["B"], True) * (1 + 0.5j))      # keep a genuinely complex right-hand side
        c["mixed"] = True
        out.append(c)
    # D'. the same promotion on TRUNCATED runs (m < n), where a projection coefficient that loses its imaginary part no longer
    # hides behind convergence (seeded change c13_m3: Gram-Schmidt buffer allocated in the operator's dtype), with complex
    # right-hand sides and with a complex start vector, one and several columns
    for n in ([3, 5, 8] if not ctx.thorough else [2, 3, 4, 5, 6, 8, 10, 12]):
        for M in sorted(set([1, 2, n - 1])):
            if M < 1 or M >= n:
                continue
            for x0 in ("zero", "random"):
                single = bool(g.integers(2))
                c = make_case(g, n, "nonsym", True, M, 1e-7, ["generic"] if single else ["generic", "generic"], x0, single, stream="D")
                c["A"] = K.tojson(K.fromjson(c["A"], True).real.astype(complex))
                c["mixed"] = True
                out.append(c)
    return out + special_cases()


# ------------------------------------------------------------------ real code and oracle
def eval_real(case, M=None):
    import cola
    from cola.linalg.inverse.gmres import gmres
    cplx = case["complex"]
    A = K.fromjson(case["A"], cplx)
    if case.get("mixed"):
        A = np.ascontiguousarray(A.real)
    B = K.fromjson(case["B"], cplx)      # (k, n)
    X0 = K.fromjson(case["X0"], cplx)
    cnt = {"calls": 0, "cols": 0}

    def mm(X):
        cnt["calls"] += 1
        cnt["cols"] += X.shape[1] if X.ndim == 2 else 1
        return A @ X

    Aop = cola.ops.LinearOperator(A.dtype, A.shape, matmat=mm)
    M = case["M"] if M is None else M
    try:
        if case["single"]:
            x, info = gmres(Aop, np.array(B[0]), x0=None if case["x0"] == "zero" else np.array(X0[0]), max_iters=M, tol=case["tol"])
            x = np.asarray(x)[None]
        else:
            x, info = gmres(Aop, np.array(B.T), x0=None if case["x0"] == "zero" else np.array(X0.T), max_iters=M, tol=case["tol"])
            x = np.asarray(x).T
        return {"x": x, "iterations": int(info["iterations"]), "products_cols": cnt["cols"], "calls": cnt["calls"]}
    except Exception as ex:  # noqa: BLE001
        return {"exception": f"{type(ex).__name__}: {ex}"}


def real_arnoldi(case):
    """the Arnoldi buffers the real gmres works with (re-computed: gmres does not return them)"""
    import cola
    from cola.linalg.decompositions.arnoldi import arnoldi
    cplx = case["complex"]
    A = K.fromjson(case["A"], cplx)
    if case.get("mixed"):
        A = np.ascontiguousarray(A.real)
    B = K.fromjson(case["B"], cplx)
    X0 = K.fromjson(case["X0"], cplx)
    R0 = (B - X0 @ A.T)
    try:
        Q, H, info = arnoldi(cola.ops.Dense(A), np.array(R0.T), max_iters=case["M"], tol=case["tol"])
        return np.asarray(H.to_dense()), int(info["iterations"]) - 1
    except Exception:  # noqa: BLE001
        return None, 0


def is_large(Hc, idx, tol):
    """the float test of cond_fun (arnoldi_fact) for ONE column at loop index idx >= 1: `norm > tol * H[1,0].real`, norm = H[idx, idx-1];
    False for a NaN column, exactly as in the code (a zero-residual column never keeps the shared loop alive)"""
    return bool(Hc[idx, idx - 1].real > tol * Hc[1, 0].real)


def singular_columns(case, H):
    """An exception `LinAlgError: Singular matrix` of the batched xnp.solve is raised for the whole batch but CAUSED by one column: the
    columns whose normal matrix H~^H H~ + diag(padding) (what gmres_fwd hands to the solver, recomputed from the real Arnoldi buffers)
    LAPACK rejects; if the re-computation is not bit-identical, the numerically singular ones (cond >= 1e15).  A NaN matrix (zero
    residual column) is not rejected by LAPACK and is never a culprit."""
    tol, M = case["tol"], case["M"]
    exact, numer = [], []
    if H is None or not M:
        return []
    for c in range(H.shape[0]):
        Hc = H[c]
        if not np.all(np.isfinite(Hc)):
            continue
        largest = np.abs(Hc).max(axis=0)
        pad = (largest < 10 * tol * largest.max()).astype(Hc.dtype)
        G = Hc.conj().T @ Hc + np.diag(pad)
        try:
            np.linalg.solve(G, Hc.conj().T[:, 0])
        except np.linalg.LinAlgError:
            exact.append(c)
            continue
        if not np.all(np.isfinite(G)) or np.linalg.cond(G) >= 1e15:
            numer.append(c)
    return exact or numer


def column_diagnosis(case, H, steps, c):
    """What the CURRENT gmres_fwd (cola/linalg/inverse/gmres.py, after commit 9a9bf4d) does with the Arnoldi buffers of column c:
         largest_vals = max(|H|, axis=-2)            # per COLUMN of the (M+1) x M Hessenberg matrix, all M+1 rows
         overall_max  = max(largest_vals);  padding = largest_vals < 10*tol*overall_max
    -> dict(garbage, mask_inexact, clipped, early_stop):
       garbage      stepping continued after a noise breakdown (norm <= 1e-10*|A|): columns of amplified rounding noise;
       mask_inexact the padding mask is not "true exactly on the unexecuted columns" (clause maskExact of C13_partial / C13_krylov_optimal);
       clipped      an executed step had a genuine norm below the absolute floor tol/2 (clause noClip / noBreakdown);
       early_stop   the loop stopped before min(max_iters, n) BY ITS STOPPING RULE (every column of the batch has norm <= tol*H[1,0], the very
                    float comparison of cond_fun, C15_stopping) while this column's last norm is genuine (not noise): clause stopExact (the
                    hypothesis `exactBreakdown` of C13_exact_at_grade_* fails and K_s is smaller than K_m).  A stop the rule does not justify
                    is never excused."""
    A, an = K.norms(case)
    noise = K.NOISE_REL * an
    M, n, tol = case["M"], case["n"], case["tol"]
    Hc = H[c]                                           # (M+1, M)
    none = {"garbage": False, "mask_inexact": False, "clipped": False, "early_stop": False}
    if not np.all(np.isfinite(Hc)):
        return none
    jn = K.first_small(Hc, steps, noise)
    garbage = jn < steps - 1
    largest = np.abs(Hc).max(axis=0) if M else np.zeros(0)        # column-wise over M+1 rows
    overall = largest.max() if M else 0.0
    mask = largest < 10 * tol * overall
    s_eff = min(steps, jn + 1)                          # executed steps that carry information (up to the first noise breakdown)
    mask_inexact = any(bool(mask[j]) != (j >= s_eff) for j in range(M))
    beta = [Hc[i + 1, i].real for i in range(steps)]
    clipped = any(noise < b < tol / 2 for b in beta)
    rule_says_stop = steps > 0 and not any(is_large(H[cc], steps, tol) for cc in range(H.shape[0]))
    early_stop = 0 < steps < min(M, n) and beta[steps - 1] > noise and rule_says_stop
    return {"garbage": garbage, "mask_inexact": mask_inexact, "clipped": clipped, "early_stop": early_stop}


# which modelled deviation can explain which failed statement (a clause that does not explain a failure is never used to excuse it)
EXPLAINS = {
    "residual<=initial": ("garbage", "clipped", "mask_inexact"),
    "iterate=minimiser": ("garbage", "clipped", "mask_inexact", "early_stop"),
    "zero-at-grade": ("garbage", "clipped", "mask_inexact", "early_stop"),
    "non-increasing": ("garbage", "clipped", "mask_inexact"),
}
CLAUSE_OF = {"garbage": "breakdownNotMasked", "clipped": "noClip", "mask_inexact": "maskExact", "early_stop": "stopExact"}


def explain(name, d, fom):
    for key in EXPLAINS.get(name, ()):
        if d.get(key):
            return CLAUSE_OF[key]
    return "keepLastRow" if fom else None


def krylov_basis(A, r, m):
    """orthonormal basis of K_m(A, r) by Arnoldi with full re-orthogonalisation (oracle only); stops at the grade"""
    n = len(r)
    nr = np.linalg.norm(r)
    if nr == 0:
        return np.zeros((n, 0), dtype=r.dtype)
    Q = [r / nr]
    an = np.linalg.norm(A, 2)
    for _ in range(min(m, n) - 1):
        w = A @ Q[-1]
        for _rep in range(2):
            for q in Q:
                w = w - np.vdot(q, w) * q
        nw = np.linalg.norm(w)
        if nw <= 1e-10 * an:
            break
        Q.append(w / nw)
    return np.stack(Q, 1)


def oracle(case, M=None):
    cplx = case["complex"]
    A = K.fromjson(case["A"], cplx)
    B = K.fromjson(case["B"], cplx)
    X0 = K.fromjson(case["X0"], cplx)
    M = case["M"] if M is None else M
    xs, dims = [], []
    for b, x0 in zip(B, X0):
        r0 = b - A @ x0
        Kb = krylov_basis(A, r0, M)
        if Kb.shape[1] == 0:
            xs.append(x0.copy())
            dims.append(0)
            continue
        y = np.linalg.lstsq(A @ Kb, r0, rcond=None)[0]
        xs.append(x0 + Kb @ y)
        dims.append(Kb.shape[1])
    return np.stack(xs), dims


def driver_case(case, cid, drop=None):
    cplx = case["complex"]
    d = {"id": cid, "kind": "gmres", "complex": cplx, "n": case["n"], "M": case["M"], "tol": K.bits(case["tol"]),
         "A": K.enc(K.fromjson(case["A"], cplx), cplx), "B": K.enc(K.fromjson(case["B"], cplx), cplx),
         "X0": K.enc(K.fromjson(case["X0"], cplx), cplx)}
    # test hook (rehearsal of the repaired world before `dropLastRow` in lean/ColaVerif/Model/GMRES.lean is flipped)
    if drop is None and os.environ.get("VERIF_GMRES_KEEP_LAST_ROW"):
        drop = os.environ["VERIF_GMRES_KEEP_LAST_ROW"] != "1"
    if drop is not None:
        d["drop"] = bool(drop)
    return d


def decode_model(ans, cplx):
    if "error" in ans:
        return {"error": ans["error"]}
    m = K.decode_model(ans, cplx)
    m["x"] = K.dec(ans["soln"], cplx)
    m["products"] = ans["products"]
    m["drop"] = ans.get("dropLastRow")
    return m


# ------------------------------------------------------------------ comparisons
def normal_cond(model, c, M, tol, drop_rows=True):
    H = model["H"][c]
    Hs = H[:M, :M] if drop_rows else H
    return float(np.linalg.cond(Hs.conj().T @ Hs + np.eye(M) * 1e-300)) if M else 1.0


def sub_batch(case, cols):
    """the same call restricted to the columns `cols` of the batch (always passed as an (n, k) array)"""
    cplx = case["complex"]
    B = K.fromjson(case["B"], cplx)
    X0 = K.fromjson(case["X0"], cplx)
    c2 = dict(case, B=K.tojson(B[cols]), X0=K.tojson(X0[cols]), single=False)
    for key in ("grades", "rhs"):
        if isinstance(case.get(key), list) and len(case[key]) == B.shape[0]:
            c2[key] = [case[key][c] for c in cols]
    return c2


def compare_columns(case, xreal, model, cols, noise):
    """column-wise comparison of real solution rows `xreal[i]` with the model's columns `cols[i]` (same number of shared steps)"""
    mism = []
    steps = model["steps"]
    for i, c in enumerate(cols):
        xr, xm = xreal[i], model["x"][c]
        if np.all(np.isfinite(model["H"][c])):
            jn = K.first_small(model["H"][c], steps, noise)
            if jn < steps - 1:
                continue        # stepping continued after a noise breakdown: H holds amplified noise (masks, pivots not comparable)
        if not np.all(np.isfinite(xr)) or not np.all(np.isfinite(xm)):
            if np.all(np.isfinite(xr)) != np.all(np.isfinite(xm)):
                mism.append(f"col {c}: finiteness differs (real {np.all(np.isfinite(xr))}, model {np.all(np.isfinite(xm))})")
            continue
        # the system gmres_fwd solves is H~[:, keep]^H H~[:, keep] (identity on the masked columns), H~ the (M+1) x M matrix and
        # `keep` the complement of its column-wise padding mask: its condition number is cond(H~[:, keep])^2
        Hs = model["H"][c]
        colmax = np.abs(Hs).max(axis=0) if Hs.shape[1] else np.zeros(0)
        keep = colmax >= 10 * case["tol"] * (colmax.max() if colmax.size else 0)
        Hk = Hs[:, keep] if keep.any() else np.eye(1)
        cond = np.linalg.cond(Hk) ** 2 if Hk.size else 1.0
        tolx = 1e-8 * max(1.0, np.linalg.norm(xr)) + 1e3 * EPS * cond * max(1.0, np.linalg.norm(xr))
        d = np.linalg.norm(xr - xm)
        if not (d <= tolx):
            mism.append(f"col {c}: |x_real - x_model| = {d:.3e} > {tolx:.3e} (cond(H)^2 = {cond:.2e})")
    return mism


SINGULAR_STATS = {"batches": 0, "culprit_columns": 0, "other_columns_recompared": 0, "other_columns_not_comparable_steps_differ": 0}


def compare_real_model(case, real, model):
    if "exception" in real or "error" in model:
        if "exception" in real and "error" not in model and "Singular" in real["exception"]:
            # np.linalg.solve raises for the WHOLE batch when ONE member is singular.  PER COLUMN (round 4), on the MODEL's run:
            #  culprit columns = columns whose model solution is non-finite (the model's elimination hits a zero pivot <-> LinAlgError),
            #  or whose model H shows stepping after a noise breakdown (whether the normal matrix is exactly singular is then not
            #  determined).  The exception is explained only by a culprit column; every OTHER column is still compared: the real code
            #  is re-run on the batch without the culprits and, when it makes the same number of shared steps as the model did on the
            #  full batch (the columns are coupled only through that number: C13_batch_steps), compared column by column.
            A, an = K.norms(case)
            noise = K.NOISE_REL * an
            st = model["steps"]
            k = model["H"].shape[0]
            culprits = [c for c in range(k) if not np.all(np.isfinite(model["x"][c]))
                        or (np.all(np.isfinite(model["H"][c])) and K.first_small(model["H"][c], st, noise) < st - 1)]
            if not culprits:
                return [f"real={real.get('exception')} model={model.get('error')} (no column of the model's run has a zero pivot or a noise breakdown)"]
            SINGULAR_STATS["batches"] += 1
            SINGULAR_STATS["culprit_columns"] += len(culprits)
            others = [c for c in range(k) if c not in culprits]
            if not others:
                return []
            sub = eval_real(sub_batch(case, others))
            if "exception" in sub:
                return [f"cols {others}: the model's run has neither a zero pivot nor a noise breakdown in them, but the real code raises on them alone: {sub['exception']}"]
            if sub["iterations"] != model["iterations"]:
                SINGULAR_STATS["other_columns_not_comparable_steps_differ"] += len(others)
                return []       # without the culprit the shared loop makes a different number of steps: another computation
            SINGULAR_STATS["other_columns_recompared"] += len(others)
            return compare_columns(case, sub["x"], model, others, noise)
        return [f"real={real.get('exception')} model={model.get('error')}"]
    mism = []
    if real["iterations"] != model["iterations"]:
        A, an = K.norms(case)
        noise = K.NOISE_REL * an
        st = min(real["iterations"], model["iterations"]) - 1
        if st >= 1 and all(np.all(np.isfinite(model["H"][c])) and model["H"][c][st, st - 1].real <= noise for c in range(model["H"].shape[0])):
            return []       # stop decided by `noise > tol*noise` (breakdown in exact arithmetic): not determined by the model
        return [f"iterations real={real['iterations']} model={model['iterations']}"]
    k = real["x"].shape[0]
    if real["products_cols"] != k * model["products"]:
        mism.append(f"products with A: real {real['products_cols']} columns, model {k} x {model['products']}")
    A, an = K.norms(case)
    noise = K.NOISE_REL * an
    return mism + compare_columns(case, real["x"], model, list(range(k)), noise)


def spec_check(case, real):
    """the property's statements on the REAL output -> list of (name, clause | None, detail)"""
    fails = []
    cplx = case["complex"]
    A, an = K.norms(case)
    B = K.fromjson(case["B"], cplx)
    X0 = K.fromjson(case["X0"], cplx)
    n, M = case["n"], case["M"]
    k = B.shape[0]
    R0 = B - X0 @ A.T
    # columns whose initial residual is EXACTLY zero (clause zeroResidual): init_arnoldi divides such a column by its norm 0, the column
    # of Q/H/x is NaN.  The batch members are computed independently (cond_fun: NaN > x is False; solve, mask and Q @ y are per member),
    # so a zero-residual column explains NaN in THAT column of the solution and nothing else — not an exception, not another column.
    zero_res = [c for c in range(k) if np.linalg.norm(R0[c]) == 0.0]
    Hreal, steps_real = real_arnoldi(case)
    nodiag = {"garbage": False, "mask_inexact": False, "clipped": False, "early_stop": False}
    diag = [column_diagnosis(case, Hreal, steps_real, c) if Hreal is not None else nodiag for c in range(k)]
    if "exception" in real:
        clause = None
        if "Singular" in real["exception"]:
            # attributed to the column(s) whose normal matrix the solver rejects, by the diagnosis of THAT column
            culprits = singular_columns(case, Hreal)
            dc = [diag[c] for c in culprits]
            clause = ("breakdownNotMasked" if any(d["garbage"] for d in dc) else "noClip" if any(d["clipped"] for d in dc)
                      else "maskExact" if any(d["mask_inexact"] for d in dc) else "keepLastRow" if culprits else None)
            return [("raises", clause, real["exception"] + f" [singular normal matrix in column(s) {culprits}]")]
        return [("raises", clause, real["exception"])]
    xopt, dims = oracle(case)
    # the stopping rule of the Arnoldi loop GMRES runs (C15_stopping), both directions, on the buffers it works with; exact float
    # comparisons: `norm` is stored as H[idx, idx-1] and `tol * H[1,0]` is the expression cond_fun evaluates
    # (a NaN column — zero residual — counts as "not large", as in cond_fun)
    if Hreal is not None:
        tol = case["tol"]
        for idx in range(1, steps_real + 1):
            small = not any(is_large(Hreal[cc], idx, tol) for cc in range(k))
            if idx < steps_real and small:
                fails.append(("arnoldi-stops-too-late", None, f"at index {idx} every column had norm <= tol*H[1,0] but {steps_real - idx} more steps were executed"))
                break
            if idx == steps_real and steps_real < min(M, n) and not small:
                big = [cc for cc in range(k) if is_large(Hreal[cc], idx, tol)]
                fails.append(("arnoldi-stops-too-early", None, f"stopped after {steps_real} < min(max_iters, n) = {min(M, n)} steps although column {big[0]} has "
                                                               f"norm {Hreal[big[0]][idx, idx - 1].real:.3e} > tol*H[1,0] = {tol * Hreal[big[0]][1, 0].real:.3e}"))
    # products with the operator: at most min(m, n) Krylov products per column plus the one forming r0
    if real["products_cols"] > k * (min(M, n) + 1):
        fails.append(("products", None, f"{real['products_cols']} operator columns for {k} right-hand sides, max_iters={M}"))
    prev = None
    if M > 1:
        prev = eval_real(case, M - 1)
    steps = real["iterations"] - 1
    for c in range(k):
        x = real["x"][c]
        b, x0 = B[c], X0[c]
        nb = max(np.linalg.norm(b), np.linalg.norm(R0[c]), 1e-300)
        if not np.all(np.isfinite(x)):
            clause = "zeroResidual" if c in zero_res else None        # only the column's OWN zero residual explains its NaN
            fails.append(("non-finite", clause, f"col {c}: solution contains NaN/inf; |b - A x0| = {np.linalg.norm(R0[c]):.3e}"))
            continue
        res = np.linalg.norm(b - A @ x)
        res0 = np.linalg.norm(R0[c])
        resopt = np.linalg.norm(b - A @ xopt[c])
        # which modelled defect could explain a failure of this column?
        grade = case["grades"][c] if c < len(case.get("grades", [])) else n
        m_eff = min(M, n)
        d = diag[c]                                                 # what the current gmres_fwd did with this column (see column_diagnosis)
        fom = m_eff < grade                                         # (regression detector) a square Galerkin system differs from the least-squares problem only before the grade
        slack = 1e-7 * max(res0, resopt) + 1e-9 * nb
        if res > res0 + slack:
            fails.append(("residual<=initial", explain("residual<=initial", d, fom), f"col {c}: |b-Ax| = {res:.6g} > |b-Ax0| = {res0:.6g} (minimal {resopt:.6g})"))
        if res > resopt + slack:
            fails.append(("iterate=minimiser", explain("iterate=minimiser", d, fom), f"col {c}: |b-Ax| = {res:.6g} > minimal residual over x0+K_m = {resopt:.6g} (m={M}, executed steps {steps})"))
        elif np.linalg.norm(x - xopt[c]) > 1e-6 * max(1.0, np.linalg.norm(xopt[c])) * max(1.0, np.linalg.cond(A)):
            fails.append(("iterate=minimiser", explain("iterate=minimiser", d, fom), f"col {c}: |x - x_opt| = {np.linalg.norm(x - xopt[c]):.3e}"))
        if m_eff >= grade and res > 1e-8 * nb * max(1.0, np.linalg.cond(A)):
            fails.append(("zero-at-grade", explain("zero-at-grade", d, fom), f"col {c}: m={M} >= grade {grade} but |b-Ax| = {res:.3e} (executed steps {steps})"))
        if prev is not None and "x" in prev and np.all(np.isfinite(prev["x"][c])):
            resprev = np.linalg.norm(b - A @ prev["x"][c])
            if res > resprev + 1e-7 * max(res0, resprev) + 1e-9 * nb:
                fails.append(("non-increasing", explain("non-increasing", d, min(M - 1, n) < grade), f"col {c}: |b-Ax_m| = {res:.6g} > |b-Ax_(m-1)| = {resprev:.6g} (m={M})"))
    return fails


# ------------------------------------------------------------------ engine
class Engine(K.Engine):
    def __init__(self, ctx, prop_known):
        super().__init__(ctx, prop_known)
        self.known = set(prop_known) | PROVISIONAL_KNOWN
        self.dist["x0"] = {}
        self.dist["rhs_kinds"] = {}
        self.dist["model_switch_dropLastRow"] = {}
        self.dist["clause_witnesses"] = {}

    def account(self, case, real):
        key = common.canon({k: case[k] for k in ("A", "B", "X0", "M", "tol", "single")})
        self.evals += 1
        if key in self.seen:
            return
        self.seen.add(key)
        steps = real.get("iterations", 1) - 1 if "iterations" in real else 0
        if case["n"] >= 2 and steps >= 1:
            self.nontrivial.add(key)
        d = self.dist
        d["n"][case["n"]] = d["n"].get(case["n"], 0) + 1
        d["m_vs_n"]["m<n" if case["M"] < case["n"] else "m=n" if case["M"] == case["n"] else "m>n"] += 1
        if any(gr < min(case["n"], case["M"]) for gr in case.get("grades", [])):
            d["breakdown"] += 1
        kk = len(case["B"])
        d["batch"][kk] = d["batch"].get(kk, 0) + 1
        d["complex" if case["complex"] else "real"] += 1
        d["cls"][case.get("cls", "?")] = d["cls"].get(case.get("cls", "?"), 0) + 1
        d["tol"][str(case["tol"])] = d["tol"].get(str(case["tol"]), 0) + 1
        d["x0"][case["x0"]] = d["x0"].get(case["x0"], 0) + 1
        for r in case.get("rhs", []):
            d["rhs_kinds"][r] = d["rhs_kinds"].get(r, 0) + 1
        if len(self.samples) < 6:
            s = dict(case)
            for f in ("A", "B", "X0"):
                s[f] = str(s[f])[:140] + "…"
            self.samples.append(s)

    def judge(self, case, real, model):
        ctx = self.ctx
        mism = compare_real_model(case, real, model)
        fails = spec_check(case, real)
        if mism:
            self.dist["outcomes"]["real!=model"] += 1
            hard = self.unexcused(fails)
            if hard:
                common.violation(ctx, {"case": case, "failed": [list(f) for f in hard], "real_vs_model": mism})
            else:
                found = self.search(case)
                if found is not None:
                    common.violation(ctx, {"case": found[0], "failed": [list(f) for f in found[1]], "original_case": case, "real_vs_model": mism})
                else:
                    common.violation(ctx, {"case": case, "real_vs_model": mism, "failed": [list(f) for f in fails]}, no_input=True)
            return "real!=model"
        if not fails:
            self.dist["outcomes"]["ok"] += 1
            return "ok"
        self.dist["outcomes"]["modelled-defect"] += 1
        status = "known"
        for name, clause, detail in fails:
            if clause is None:
                common.violation(ctx, {"case": case, "failed": [[name, clause, detail]],
                                       "note": "real = model but the property statement fails and no named clause covers it"})
                return "violation"
            self.dist["clauses"][clause] = self.dist["clauses"].get(clause, 0) + 1
            ks = clause + "@stream" + case.get("stream", "?")
            self.dist["clause_by_stream"][ks] = self.dist["clause_by_stream"].get(ks, 0) + 1
            if clause in self.known:
                common.known_finding(ctx, clause, WHAT[clause] + f" [e.g. n={case['n']} max_iters={case['M']} tol={case['tol']}: {name}: {detail}]")
                if case.get("witness_of") == clause or (case.get("stream") == "S" and clause not in self.dist["clause_witnesses"]):
                    self.dist["clause_witnesses"][clause] = {"A": case["A"], "B": case["B"], "X0": case["X0"], "max_iters": case["M"],
                                                             "tol": case["tol"], "failed": name, "detail": detail}
            else:
                common.violation(ctx, {"case": case, "failed": [[name, clause, detail]], "clause": clause,
                                       "note": "modelled defect (real = model != spec), clause not listed in known_findings.json"})
                return "violation"
        return status

    def search(self, case, budget=120):
        """real != model: look for a concrete input on which the REAL gmres violates a property statement that no recorded clause
        explains.  Neighbourhood: the case under nearby parameters (default tolerance, max_iters around n, x0 = 0), the operator scaled to
        norm 1, other right-hand sides (unit vector, all-ones, a vector in a 2-dimensional invariant subspace; batches mixing a generic
        column with an early-breakdown column, 1-D and (n, k) calls), leading principal sub-blocks.  -> (case, hard failures) | None"""
        cplx = case["complex"]
        A = K.fromjson(case["A"], cplx)
        B = K.fromjson(case["B"], cplx)
        X0 = K.fromjson(case["X0"], cplx)
        n = case["n"]
        an = float(np.linalg.norm(A, 2)) if A.size else 0.0
        cands, seen = [], set()

        def add(A2, B2, X2, M, tol, single, grades=None):
            B2, X2 = np.atleast_2d(B2), np.atleast_2d(X2)
            nn = A2.shape[0]
            if nn == 0 or M < 1 or abs(np.linalg.det(A2)) < 1e-8 * max(1.0, np.linalg.norm(A2, 2)) ** nn:
                return
            c2 = dict(case)
            c2.update({"n": nn, "M": int(M), "tol": float(tol), "A": K.tojson(A2), "B": K.tojson(B2), "X0": K.tojson(X2),
                       "x0": "zero" if not np.any(X2) else "given", "single": bool(single and B2.shape[0] == 1),
                       "grades": list(grades) if grades is not None else [nn] * B2.shape[0], "rhs": ["search"] * B2.shape[0],
                       "stream": case.get("stream", "?") + "/search"})
            c2.pop("mixed", None)
            c2.pop("witness_of", None)
            key = common.canon({k: c2[k] for k in ("A", "B", "X0", "M", "tol", "single")})
            if key not in seen:
                seen.add(key)
                cands.append(c2)

        Z = np.zeros_like(B)
        for tol in dict.fromkeys([case["tol"], 1e-7, 1e-5]):
            for M in dict.fromkeys([case["M"], n, max(1, n - 1), n + 2]):
                add(A, B, X0, M, tol, case["single"], case.get("grades"))
        add(A, B, Z, n, 1e-7, case["single"], case.get("grades"))
        As = A / an if (an > 0 and not 0.5 <= an <= 2.0) else A
        if As is not A:
            for M in dict.fromkeys([n, case["M"]]):
                add(As, B, Z, M, 1e-7, case["single"])
        dt = complex if cplx else float
        e1 = np.zeros(n, dtype=dt)
        e1[0] = 1.0
        gen = B[0] if np.linalg.norm(B[0]) > 0 else np.ones(n, dtype=dt)
        rhs = [(e1, n), (np.ones(n, dtype=dt), n)]
        try:
            w, X = np.linalg.eig(As)
            if n >= 2:
                v2 = X[:, 0] + X[:, 1]
                v2 = v2 if cplx else np.real(v2)
                rhs.append((v2, 2 if cplx or abs(w[0].imag) > 0 or abs(w[1].imag) == 0 else 3))
        except Exception:  # noqa: BLE001
            pass
        for v, gr in rhs:
            for M in dict.fromkeys([n, n + 2, max(1, n // 2)]):
                add(As, v, np.zeros(n, dtype=dt), M, 1e-7, True, [gr])
        if len(rhs) >= 3:
            v2, gr = rhs[2]
            add(As, np.stack([gen, v2]), np.zeros((2, n), dtype=dt), n, 1e-7, False, [n, gr])
            add(As, np.stack([v2, gen, e1]), np.zeros((3, n), dtype=dt), n + 1, 1e-7, False, [gr, n, n])
            add(As, np.stack([gen, v2]), np.stack([0.5 * gen, 0.25 * v2]), n, 1e-7, False, None)
        for nn in range(n - 1, 0, -1):
            add(As[:nn, :nn], B[:, :nn], np.zeros_like(B[:, :nn]), nn, 1e-7, case["single"])
        for c2 in cands[:budget]:
            r = eval_real(c2)
            hard = self.unexcused(spec_check(c2, r))
            if hard:
                return c2, hard
        return None

    def run(self, cases):
        answers = K.run_driver([driver_case(c, i) for i, c in enumerate(cases)])
        for i, c in enumerate(cases):
            real = eval_real(c)
            model = decode_model(answers.get(i, {"error": "no answer from the Lean driver"}), c["complex"])
            self.account(c, real)
            self.judge(c, real, model)
            sw = self.dist["model_switch_dropLastRow"]
            sw[str(model.get("drop"))] = sw.get(str(model.get("drop")), 0) + 1


def run(ctx):
    gate, gate_err = None, None
    try:
        gate = common.lean_gate(ctx, MODULE)
    except common.LeanGateError as ex:
        gate_err = str(ex)
    eng = Engine(ctx, common.known_clauses(ctx.prop))
    if ctx.replay:
        rp = json.load(open(ctx.replay))
        c = rp.get("case") or rp.get("original_case")
        real = eval_real(c)
        ans = K.run_driver([driver_case(c, 0)], nproc=1)
        model = decode_model(ans.get(0, {"error": "no answer"}), c["complex"])
        eng.account(c, real)
        st = eng.judge(c, real, model)
        print(json.dumps({"replayed": {k: c[k] for k in ("n", "M", "tol", "cls", "rhs", "x0")}, "status": st,
                          "spec_failures": [list(f) for f in spec_check(c, real)],
                          "real_vs_model": compare_real_model(c, real, model)})[:3000])
    else:
        g = np.random.default_rng(random.Random(ctx.seed * 7919 + 13).getrandbits(64))
        eng.run(stream(ctx, g))
    if gate_err is not None and not ctx.violations:
        common.violation(ctx, {"broken": f"Lean gate of {MODULE}", "detail": gate_err[-3000:]}, no_input=True)
    cov = eng.coverage()
    cov["distributions"]["singular_exception_per_column"] = dict(SINGULAR_STATS, rule=(
        "real raises LinAlgError for the whole batch: culprit columns are determined on the MODEL's run (non-finite model solution = zero pivot, "
        "or stepping after a noise breakdown in the model's H); every other column is re-run through the real code without the culprits and "
        "compared with the model column by column when the shared step count is unchanged"))
    cov["rule"] = ("invertible A = X D X^-1 as in C15 (normal / nonsym / nonnormal / jordanish, real and complex, n = 1..%d), 1-3 right-hand "
                   "sides (1-D, (n,1) and (n,k) arrays), initial residuals generic / in an invariant subspace of dimension 1-3 (early "
                   "breakdown), x0 = None or random, max_iters = 1..n+3, tol in {1e-3,1e-5,1e-7,1e-8}, plus n = 32, 64 (quick) / 64, 100, 150 "
                   "(thorough), operators of norm 1e-9, and hand-made systems that produce every recorded clause on the current tree (zero "
                   "residual, padding mask on an executed column, absolute clip, early tolerance stop, batch breakdown at tol = 1e-10; see "
                   "distributions.clause_witnesses); distinct = canonical JSON of (A, B, X0, max_iters, tol, 1-D); "
                   "non-trivial = n >= 2 and >= 1 Arnoldi step; products with A counted by a wrapping LinearOperator; oracle = dense least "
                   "squares over an orthonormal Krylov basis" % (12 if not ctx.thorough else 40))
    cov["trusted_base_extra"] = ["lean/DriverArnoldi.lean, the Float/CF instances and `GMRES.gaussSolve` (stand-in for np.linalg.solve, which is a "
                                 "parameter of the model with its contract as a hypothesis)"]
    common.write_evidence(ctx, gate, cov, assumptions=[
        "theorems are about exact real/complex arithmetic; rounding is outside the model",
        "CONTRACT: the dense solver (np.linalg.solve, LAPACK gesv) is a parameter of the model under `GMRES.SolverSound` (on a nonsingular "
        "system the returned vector solves it; satisfiable: GMRES.exactSolve_sound); that the system gmres_fwd hands over is nonsingular "
        "is proved (GMRES.normalMatrix_regular); the driver runs Gauss-Jordan elimination (GMRES.gaussSolve), not proved to meet the contract",
        "'at most m products with the operator per column' is read as: at most min(m, n) Krylov products plus the one product that forms "
        "the initial residual b - A x0 (the code forms A @ x0 even for the default x0 = 0): the literal count is min(m, n) + 1",
        "preconditioner P, use_householder, use_triangular are outside the model (defaults only)",
        "mixed dtypes (stream D: real operator, complex right-hand side): the Lean model has one scalar type, so the model is run on the "
        "operator cast to the promoted (complex) dtype while the real code gets the real operator; the results go through the normal "
        "comparison (the former truncation defect is repaired in /repo, commit a98c0be; there is no excuse path)",
        "batches: the Arnoldi loop is shared (cond_fun: any column large), so every column is stepped S >= its own single-run count "
        "times; C13_batch_krylov_optimal / C13_batch_exact_at_grade are per column about K_S; the recorded clauses are attributed per "
        "column (a NaN column is explained by zeroResidual only if THAT column has b - A x0 = 0; an exception by the column whose "
        "normal matrix is singular - determined on the model's run; the remaining columns of such a batch are re-run without the culprit "
        "and compared column by column, distributions.singular_exception_per_column)"])
    print(json.dumps({"outcomes": cov["outcomes"], "distinct_nontrivial": cov["distinct_nontrivial"], "clauses": cov["distributions"]["clauses"],
                      "gate": (gate or {}).get("obligations"), "wall_s": round(ctx.wall(), 1)}))
