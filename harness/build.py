"""Build cola operators from the case language (DESIGN.md 2.9).  Structurally equal
sub-expressions are built once and shared (object identity = structural equality)."""
import json
from fractions import Fraction

import numpy as np
import shim  # noqa: F401
import cola
from cola.ops import (Dense, Triangular, Sparse, ScalarMul, Identity, Product, Sum, Kronecker, KronSum,
                      BlockDiag, Diagonal, Tridiagonal, Transpose, Adjoint, Sliced, Permutation,
                      Concatenated, Householder)

DT = {"f32": np.float32, "f64": np.float64, "c64": np.complex64, "c128": np.complex128}
DTN = {np.dtype(v): k for k, v in DT.items()}
ANN = {"PSD": cola.PSD, "SelfAdjoint": cola.SelfAdjoint, "Unitary": cola.Unitary, "Stiefel": cola.Stiefel}


def q(v):
    if isinstance(v, dict):
        return v["q"][0] / v["q"][1]
    return v


def z(v):
    if isinstance(v, list):
        return complex(q(v[0]), q(v[1]))
    return q(v)


def arr(vals, dt, shape=None):
    """exact integer / Gaussian-integer payload -> ndarray of dtype dt (imag must be 0 for real dt)"""
    a = np.array([[z(x) for x in row] for row in vals] if vals and isinstance(vals[0], list) and shape is not None and len(shape) == 2
                 else [z(x) for x in vals], dtype=np.complex128)
    if shape is not None:
        a = a.reshape(shape)
    if not np.issubdtype(DT[dt], np.complexfloating):
        assert np.all(a.imag == 0), "complex payload for real dtype"
        a = a.real
    return a.astype(DT[dt])


def ix(j):
    if "s" in j:
        return slice(*j["s"])
    return np.array(j["a"], dtype=np.int64)


def dtname(dtype):
    return DTN[np.dtype(dtype)]


class Builder:
    """Structurally equal sub-expressions are built once and shared.  The canonical string of an expression is computed
    once per list OBJECT (cache keyed by id(expr), the expression kept alive by the cache), so building the same big
    expression again -- or re-entering `build` for every node of it -- does not re-serialise the payloads."""
    def __init__(self):
        self.memo = {}
        self._keys = {}      # id(expr) -> (expr, canonical string)

    def _key(self, e):
        ent = self._keys.get(id(e))
        if ent is not None and ent[0] is e:
            return ent[1]
        k = json.dumps(e)
        self._keys[id(e)] = (e, k)
        return k

    def build(self, e):
        by_id = self._keys.get(id(e))
        key = by_id[1] if by_id is not None and by_id[0] is e else self._key(e)
        if key in self.memo:
            return self.memo[key]
        op = self._build(e)
        self.memo[key] = op
        return op

    def _build(self, e):
        t = e[0]
        B = self.build
        if t == "dense":
            return Dense(arr(e[4], e[1], (e[2], e[3])))
        if t == "tri":
            return Triangular(arr(e[5], e[1], (e[2], e[3])), lower=e[4])
        if t == "sparse":
            ents = e[4]
            data = arr([x[2] for x in ents], e[1])
            return Sparse(data, np.array([x[0] for x in ents], dtype=np.int64),
                          np.array([x[1] for x in ents], dtype=np.int64), shape=(e[2], e[3]))
        if t == "scalar":
            c = z(e[2])
            return ScalarMul(c, shape=(e[3], e[3]), dtype=DT[e[1]])
        if t == "eye":
            return Identity(shape=(e[2], e[2]), dtype=DT[e[1]])
        if t == "prod":
            return Product(*[B(x) for x in e[1:]])
        if t == "sum":
            return Sum(*[B(x) for x in e[1:]])
        if t == "kron":
            return Kronecker(*[B(x) for x in e[1:]])
        if t == "kronsum":
            return KronSum(*[B(x) for x in e[1:]])
        if t == "bdiag":
            return BlockDiag(*[B(x) for x in e[1]], multiplicities=list(e[2]))
        if t == "diag":
            return Diagonal(arr(e[2], e[1]))
        if t == "tridiag":
            return Tridiagonal(arr(e[2], e[1]), arr(e[3], e[1]), arr(e[4], e[1]))
        if t == "T":
            return Transpose(B(e[1]))
        if t == "H":
            return Adjoint(B(e[1]))
        if t == "slice":
            return Sliced(A=B(e[1]), slices=(ix(e[2]), ix(e[3])))
        if t == "perm":
            return Permutation(np.array(e[2], dtype=np.int64), dtype=DT[e[1]])
        if t == "concat":
            return Concatenated(*[B(x) for x in e[2:]], axis=e[1])
        if t == "house":
            v = arr(e[2], e[1]).reshape(-1, 1)
            return Householder(v, beta=z(e[3]))
        if t == "generic":
            return cola.fns.no_dispatch(B(e[1]))
        if t == "ann":
            return ANN[e[1]](B(e[2]))
        raise ValueError(f"unknown tag {t}")


def qcanon(x):
    """float -> int if integral, else the exact dyadic fraction 'n/d' (the driver's format)"""
    x = float(x)
    if x == int(x):
        return int(x)
    f = Fraction(x)
    return f"{f.numerator}/{f.denominator}"


def exact_mat(a):
    """ndarray -> nested lists of [re, im] exact pairs (ints or 'n/d' strings); None if not finite"""
    a = np.asarray(a)
    re, im = np.real(a).astype(np.float64), np.imag(a).astype(np.float64)
    if not (np.all(np.isfinite(re)) and np.all(np.isfinite(im))):
        return None
    if a.ndim == 0:
        return [qcanon(re), qcanon(im)]
    if a.ndim == 1:
        return [[qcanon(x), qcanon(y)] for x, y in zip(re, im)]
    return [[[qcanon(x), qcanon(y)] for x, y in zip(r1, r2)] for r1, r2 in zip(re, im)]
