"""Type-directed generator of operator expression trees in the case language.

Every random choice comes from the `random.Random` passed in.  `Gen.op(r, c, depth)` returns an
expression of exactly shape (r, c); constructor preconditions (compatible shapes, square kinds)
are respected, so the trees are well-formed inputs of the public constructors."""
import itertools

DTYPES = ["f32", "f64", "c64", "c128"]
LEAF_ANY = ["dense", "sparse"]
LEAF_SQ = ["tri", "scalar", "eye", "diag", "tridiag", "perm", "house"]
COMP = ["prod", "sum", "kron", "kronsum", "bdiag", "T", "H", "slice", "concat", "generic", "ann", "gram", "scaled", "symslice"]


def is_cplx(dt):
    return dt in ("c64", "c128")


def divisors(n):
    return [d for d in range(1, n + 1) if n % d == 0]


class Gen:
    def __init__(self, rng, max_extent=5, vmax=3, kinds=None, dtypes=None, ann=True, arr_index=True,
                 concat_axis1=True, ann_p=0.15):
        self.rng = rng
        self.max_extent = max_extent
        self.vmax = vmax
        self.kinds = set(kinds) if kinds else set(LEAF_ANY + LEAF_SQ + COMP)
        self.dtypes = dtypes or DTYPES
        self.ann = ann
        self.arr_index = arr_index
        self.concat_axis1 = concat_axis1
        self.ann_p = ann_p

    # ---------------------------------------------------------------- scalars / payloads
    def dt(self):
        return self.rng.choice(self.dtypes)

    def zint(self, nonzero=False):
        while True:
            v = self.rng.randint(-self.vmax, self.vmax)
            if v != 0 or not nonzero:
                return v

    def z(self, dt, nonzero=False):
        if is_cplx(dt) and self.rng.random() < 0.7:
            while True:
                v = [self.zint(), self.zint()]
                if v != [0, 0] or not nonzero:
                    return v
        return self.zint(nonzero)

    def mat(self, dt, r, c, density=0.8):
        return [[self.z(dt) if self.rng.random() < density else 0 for _ in range(c)] for _ in range(r)]

    def vec(self, dt, n):
        return [self.z(dt) for _ in range(n)]

    # ---------------------------------------------------------------- leaves
    def leaf(self, r, c):
        kinds = [k for k in LEAF_ANY if k in self.kinds]
        if r == c:
            kinds += [k for k in LEAF_SQ if k in self.kinds]
        if not kinds:
            kinds = ["dense"]
        k = self.rng.choice(kinds)
        dt = self.dt()
        if k == "dense":
            return ["dense", dt, r, c, self.mat(dt, r, c)]
        if k == "sparse":
            coords = [(i, j) for i in range(r) for j in range(c)]
            self.rng.shuffle(coords)
            coords = coords[:self.rng.randint(1, max(1, len(coords)))]
            ents = [[i, j, self.z(dt)] for (i, j) in coords]
            return ["sparse", dt, r, c, ents]
        if k == "tri":
            lower = self.rng.random() < 0.5
            m = self.mat(dt, r, c)
            for i in range(r):
                for j in range(c):
                    if (lower and j > i) or (not lower and j < i):
                        m[i][j] = 0
            return ["tri", dt, r, c, lower, m]
        if k == "scalar":
            return ["scalar", dt, self.z(dt), r]
        if k == "eye":
            return ["eye", dt, r]
        if k == "diag":
            return ["diag", dt, self.vec(dt, r)]
        if k == "tridiag":
            return ["tridiag", dt, self.vec(dt, r - 1), self.vec(dt, r), self.vec(dt, r - 1)]
        if k == "perm":
            p = list(range(r))
            self.rng.shuffle(p)
            return ["perm", dt, p]
        if k == "house":
            return ["house", dt, self.vec(dt, r), self.z(dt)]
        raise AssertionError(k)

    # ---------------------------------------------------------------- annotated leaves (true declarations)
    def herm(self, dt, n):
        m = [[0] * n for _ in range(n)]
        for i in range(n):
            m[i][i] = self.zint()
            for j in range(i + 1, n):
                v = self.z(dt)
                m[i][j] = v
                m[j][i] = [v[0], -v[1]] if isinstance(v, list) else v
        return m

    def psd(self, dt, n):
        k = self.rng.randint(1, max(1, n))
        vm, self.vmax = self.vmax, 2
        B = self.mat(dt, n, k)
        self.vmax = vm

        def c(v):
            return complex(v[0], v[1]) if isinstance(v, list) else complex(v, 0)
        m = [[0] * n for _ in range(n)]
        for i in range(n):
            for j in range(n):
                s = sum(c(B[i][t]) * c(B[j][t]).conjugate() for t in range(k))
                m[i][j] = [int(s.real), int(s.imag)] if s.imag != 0 else int(s.real)
        return m

    def unitary_cols(self, dt, n, k):
        """n x k matrix with orthonormal columns and Gaussian-integer entries (signed/phase permutation)"""
        rows = list(range(n))
        self.rng.shuffle(rows)
        m = [[0] * k for _ in range(n)]
        phases = [1, -1, [0, 1], [0, -1]] if is_cplx(dt) else [1, -1]
        for j in range(k):
            m[rows[j]][j] = self.rng.choice(phases)
        return m

    def ann_leaf(self, r, c):
        dt = self.dt()
        if r == c:
            a = self.rng.choice(["SelfAdjoint", "PSD", "Unitary", "Stiefel"])
        elif r > c:
            a = "Stiefel"
        else:
            return None
        if a == "SelfAdjoint":
            return ["ann", a, ["dense", dt, r, r, self.herm(dt, r)]]
        if a == "PSD":
            return ["ann", a, ["dense", dt, r, r, self.psd(dt, r)]]
        return ["ann", a, ["dense", dt, r, c, self.unitary_cols(dt, r, c)]]

    # ---------------------------------------------------------------- slices
    def slices_of_len(self, n, want):
        """all (start, stop, step) with params in a small window selecting exactly `want` of n positions"""
        vals = [None] + list(range(-n - 1, n + 2))
        out = []
        for st in [None, 1, 2, 3, -1, -2, -3]:
            for a in vals:
                for b in vals:
                    if len(range(*slice(a, b, st).indices(n))) == want:
                        out.append([a, b, st])
        return out

    def ix(self, n, want):
        if self.arr_index and self.rng.random() < 0.25 and n > 0:
            return {"a": [self.rng.randrange(-n, n) for _ in range(want)]}
        cands = self.slices_of_len(n, want)
        return {"s": self.rng.choice(cands)}

    # ---------------------------------------------------------------- composites
    def op(self, r, c, depth):
        if depth <= 0 or self.rng.random() < 0.15:
            if self.ann and "ann" in self.kinds and self.rng.random() < self.ann_p:
                e = self.ann_leaf(r, c)
                if e is not None:
                    return e
            return self.leaf(r, c)
        kinds = [k for k in COMP if k in self.kinds]
        self.rng.shuffle(kinds)
        for k in kinds:
            e = self.comp(k, r, c, depth)
            if e is not None:
                return e
        return self.leaf(r, c)

    def ext(self):
        return self.rng.randint(1, self.max_extent)

    def comp(self, k, r, c, depth):
        rng = self.rng
        d = depth - 1
        if k == "prod":
            n = rng.choice([2, 2, 3])
            dims = [r] + [self.ext() for _ in range(n - 1)] + [c]
            return ["prod"] + [self.op(dims[i], dims[i + 1], d) for i in range(n)]
        if k == "sum":
            n = rng.choice([2, 2, 3])
            return ["sum"] + [self.op(r, c, d) for _ in range(n)]
        if k == "kron":
            n = rng.choice([2, 2, 3])
            rs, cs = self.factor(r, n), self.factor(c, n)
            return ["kron"] + [self.op(rs[i], cs[i], d) for i in range(n)]
        if k == "kronsum":
            if r != c:
                return None
            n = rng.choice([2, 2, 3])
            rs = self.factor(r, n)
            return ["kronsum"] + [self.op(rs[i], rs[i], d) for i in range(n)]
        if k == "bdiag":
            for _ in range(20):
                nb = rng.choice([1, 2, 2, 3])
                mults = [rng.choice([1, 1, 2, 3]) for _ in range(nb)]
                rs = self.weighted_partition(r, mults)
                cs = self.weighted_partition(c, mults)
                if rs is not None and cs is not None:
                    return ["bdiag", [self.op(rs[i], cs[i], d) for i in range(nb)], mults]
            return None
        if k == "T":
            return ["T", self.op(c, r, d)]
        if k == "H":
            return ["H", self.op(c, r, d)]
        if k == "slice":
            R, C = r + rng.randint(0, 2), c + rng.randint(0, 2)
            return ["slice", self.op(R, C, d), self.ix(R, r), self.ix(C, c)]
        if k == "concat":
            if self.concat_axis1 and rng.random() < 0.5:
                n = rng.choice([1, 2, 3])
                cs = self.partition(c, n)
                if cs is None:
                    return None
                return ["concat", 1] + [self.op(r, ci, d) for ci in cs]
            n = rng.choice([1, 2, 3])
            rs = self.partition(r, n)
            if rs is None:
                return None
            return ["concat", 0] + [self.op(ri, c, d) for ri in rs]
        if k == "generic":
            return ["generic", self.op(r, c, d)]
        if k == "gram":
            if r != c:
                return None
            w = rng.choice(["H", "H", "T"])
            if rng.random() < 0.25:
                # both factors wrapped around the same (square) operator: NOT a Gram pattern
                X = self.op(r, r, d)
                return ["prod", [w, X], [rng.choice(["H", "T"]), X]]
            if rng.random() < 0.5:
                X = self.op(self.ext(), r, d)
                return ["prod", [w, X], X]
            X = self.op(r, self.ext(), d)
            return ["prod", X, [w, X]]
        if k == "scaled":
            if r != c and rng.random() < 0.5:
                return None
            dt = self.dt()
            zs = [1, -1, 2, -2, 0] + ([[0, 1], [1, 1], [0, -1]] if is_cplx(dt) else [])
            inner = self.op(r, c, d)
            fac = ["scalar", dt, rng.choice(zs), r]
            return ["prod", fac, inner] if rng.random() < 0.8 else ["prod", fac, inner, ["scalar", dt, rng.choice(zs), c]] if r == c else ["prod", fac, inner]
        if k == "symslice":
            if r != c:
                return None
            R = r + rng.randint(0, 2)
            ixx = self.ix(R, r)
            return ["slice", self.op(R, R, d), ixx, ixx]
        if k == "ann":
            if not self.ann:
                return None
            return self.ann_leaf(r, c)
        raise AssertionError(k)

    def factor(self, n, k):
        out = []
        for _ in range(k - 1):
            dv = self.rng.choice(divisors(n))
            out.append(dv)
            n //= dv
        out.append(n)
        self.rng.shuffle(out)
        return out

    def partition(self, n, k):
        if n < k:
            return None
        cuts = sorted(self.rng.sample(range(1, n), k - 1)) if k > 1 else []
        pts = [0] + cuts + [n]
        return [pts[i + 1] - pts[i] for i in range(k)]

    def weighted_partition(self, n, mults):
        """positive sizes s_i with sum s_i * m_i == n"""
        k = len(mults)
        cands = [s for s in itertools.product(range(1, n + 1), repeat=k)
                 if sum(a * b for a, b in zip(s, mults)) == n] if n <= 8 and k <= 3 else []
        return list(self.rng.choice(cands)) if cands else None

    # ---------------------------------------------------------------- special (untargeted) trees
    def herm_tridiag(self, dt, n):
        be = [self.zint() for _ in range(n)]
        ga = [self.z(dt) for _ in range(n - 1)]
        al = [[v[0], -v[1]] if isinstance(v, list) else v for v in ga]
        return ["tridiag", dt, al, be, ga]

    def herm_op(self, n, depth):
        """a Hermitian operator of size n that is NOT a plain annotated Dense (true declaration on a structured kind)"""
        rng = self.rng
        dt = rng.choice(["c64", "c128", "c128", "f64"]) if any(is_cplx(d) for d in self.dtypes) else self.dt()
        k = rng.choice(["generic", "tridiag", "kron", "bdiag", "sum", "diag", "declkron"])
        if k == "generic":
            return ["ann", "SelfAdjoint", ["generic", ["dense", dt, n, n, self.herm(dt, n)]]]
        if k == "tridiag" and n >= 1:
            return ["ann", "SelfAdjoint", self.herm_tridiag(dt, n)]
        if k == "diag":
            return ["ann", rng.choice(["SelfAdjoint", "PSD"]), ["diag", dt, [abs(self.zint()) for _ in range(n)]]]
        if k == "sum":
            return ["sum", ["ann", "SelfAdjoint", ["dense", dt, n, n, self.herm(dt, n)]], ["ann", "PSD", ["dense", dt, n, n, self.psd(dt, n)]]]
        if k in ("kron", "declkron"):
            fs = self.factor(n, 2)
            a = ["ann", "SelfAdjoint", ["dense", dt, fs[0], fs[0], self.herm(dt, fs[0])]]
            b = ["ann", "SelfAdjoint", ["dense", self.dt(), fs[1], fs[1], self.herm("c128", fs[1])]] if False else \
                ["ann", "SelfAdjoint", ["dense", dt, fs[1], fs[1], self.herm(dt, fs[1])]]
            if k == "kron":
                return ["kron", a, b]                         # SelfAdjoint inferred for the composite
            return ["ann", "SelfAdjoint", ["kron", a[2], b[2]]]   # declared on the composite
        parts = self.partition(n, 2) or [n]
        return ["bdiag", [["ann", "SelfAdjoint", ["dense", dt, q, q, self.herm(dt, q)]] for q in parts], [1] * len(parts)]

    def special(self, depth):
        """trees whose interesting feature needs more than the targeted generator's small extents: 3-4 factor Kronecker
        products of pairwise different (mostly non-square) extents, Kronecker sums of different sizes, BlockDiag with
        multiplicities over non-square blocks, complex Hermitian composites, Gram products with one or BOTH factors wrapped"""
        rng = self.rng
        d2 = max(0, depth - 2)
        k = rng.choice(["bigkron", "bigkron", "bigkronsum", "herm", "herm", "bdiagmult", "bdiagmult", "gramwrap", "hermcomp", "identfirst"])
        if k == "identfirst":
            # an Identity as the FIRST member of a 3-4 member Sum / KronSum / Product: `Identity @ X` returns the operand object
            # itself, so any member-wise accumulation that works in place aliases the caller's operand (seeded c01_m3, c18_m3)
            f = rng.choice(["sum", "sum", "kronsum", "prod"])
            dt = rng.choice(DTYPES)
            if f == "kronsum":
                qs = rng.choice([[2, 2, 2], [2, 3, 2], [3, 2], [2, 2, 3]])
                return ["kronsum", ["eye", dt, qs[0]]] + [self.op(q, q, d2) for q in qs[1:]]
            n = rng.randint(2, 4)
            return [f, ["eye", dt, n]] + [self.op(n, n, d2) for _ in range(rng.choice([2, 2, 3]))]
        if k == "bigkron":
            n = rng.choice([3, 3, 4])
            pool = [(1, 2), (2, 1), (2, 3), (3, 2), (1, 3), (3, 1), (2, 2), (3, 3), (2, 4), (4, 2), (1, 1)]
            while True:
                dims = rng.sample(pool, n)
                R = C = 1
                for a, b in dims:
                    R, C = R * a, C * b
                if R <= 36 and C <= 36 and sum(a != b for a, b in dims) >= 2:
                    break
            return ["kron"] + [self.op(a, b, d2) for a, b in dims]
        if k == "bigkronsum":
            sizes = rng.choice([[2, 3, 2], [2, 3], [3, 2, 1], [2, 2, 3], [4, 3], [2, 3, 4], [3, 3, 2]])
            return ["kronsum"] + [self.op(q, q, d2) for q in sizes]
        if k == "bdiagmult":
            nb = rng.choice([2, 2, 3])
            shapes = rng.sample([(1, 2), (2, 1), (2, 3), (3, 2), (1, 3), (3, 1), (2, 2), (1, 1), (3, 3)], nb)
            mults = [rng.choice([1, 2, 3]) for _ in range(nb)]
            mults[rng.randrange(nb)] = rng.choice([2, 3])
            return ["bdiag", [self.op(a, b, d2) for a, b in shapes], mults]
        if k == "gramwrap":
            # A.H @ A, A @ A.T, and the NON-Gram products with both factors wrapped (A.H @ A.H, A.T @ A.H, ...) around one
            # shared operator of any kind (not only Dense)
            form = rng.choice(["both", "both", "left", "right"])
            w1, w2 = rng.choice(["H", "H", "T"]), rng.choice(["H", "T"])
            if form == "both":
                n = rng.randint(2, 4)
                X = self.op(n, n, max(0, depth - 1))
                return ["prod", [w1, X], [w2, X]]
            r, c = rng.randint(1, 4), rng.randint(2, 4)
            X = self.op(r, c, max(0, depth - 1))
            return ["prod", [w1, X], X] if form == "left" else ["prod", X, [w1, X]]
        if k == "hermcomp":
            # complex Hermitian composites: sums / Kronecker products / block diagonals / slices of Hermitian operators
            n = rng.randint(2, 4)
            f = rng.choice(["sum", "kron", "bdiag", "slice", "TH"])
            if f == "sum":
                return ["sum", self.herm_op(n, depth), self.herm_op(n, depth)]
            if f == "kron":
                return ["kron", self.herm_op(2, depth), self.herm_op(rng.choice([2, 3]), depth)]
            if f == "bdiag":
                return ["bdiag", [self.herm_op(2, depth), self.herm_op(rng.choice([1, 3]), depth)], [rng.choice([1, 2]), rng.choice([1, 2])]]
            if f == "slice":
                ixx = self.ix(n + 1, n)
                return ["slice", self.herm_op(n + 1, depth), ixx, ixx]
            return [rng.choice(["T", "H"]), [rng.choice(["T", "H"]), self.herm_op(n, depth)]]
        n = rng.randint(2, 5)
        h = self.herm_op(n, depth)
        w = rng.choice(["plain", "T", "H", "prod", "slice"])
        if w == "T":
            return ["T", h]
        if w == "H":
            return ["H", h]
        if w == "prod":
            return ["prod", self.op(rng.randint(1, 3), n, 0), h]
        return h

    def shape(self):
        """shape classes: 1xN, Nx1, square, tall, wide (8*rows < cols)"""
        t = self.rng.random()
        m = self.max_extent
        if t < 0.1:
            return 1, self.rng.randint(1, m)
        if t < 0.2:
            return self.rng.randint(1, m), 1
        if t < 0.27:
            return 1, self.rng.randint(9, 12)
        if t < 0.6:
            n = self.rng.randint(1, m)
            return n, n
        return self.rng.randint(1, m), self.rng.randint(1, m)

    def operand(self, rows, dt=None, maxcols=3, vec_ok=True):
        dt = dt or self.dt()
        b = self.rng.randint(1, maxcols)
        X = self.mat(dt, rows, b, density=0.9)
        return dt, X


def subexprs(e):
    """all operator sub-expressions of e (post-order)"""
    out = []
    t = e[0]
    if t in ("prod", "sum", "kron", "kronsum"):
        kids = e[1:]
    elif t == "bdiag":
        kids = e[1]
    elif t in ("T", "H", "generic"):
        kids = [e[1]]
    elif t == "slice":
        kids = [e[1]]
    elif t == "concat":
        kids = e[2:]
    elif t == "ann":
        kids = [e[2]]
    else:
        kids = []
    for k in kids:
        out += subexprs(k)
    out.append(e)
    return out


def kinds_of(e):
    return [s[0] for s in subexprs(e)]


def depth_of(e):
    t = e[0]
    if t in ("prod", "sum", "kron", "kronsum"):
        kids = e[1:]
    elif t == "bdiag":
        kids = e[1]
    elif t in ("T", "H", "generic", "slice"):
        kids = [e[1]]
    elif t == "concat":
        kids = e[2:]
    elif t == "ann":
        kids = [e[2]]
    else:
        return 0
    return 1 + max([depth_of(k) for k in kids] or [0])


def shape_of(e):
    """(rows, cols) of an operator expression (mirrors the constructors)"""
    t = e[0]
    if t in ("dense", "sparse"):
        return e[2], e[3]
    if t == "tri":
        return e[2], e[3]
    if t == "scalar":
        return e[3], e[3]
    if t == "eye":
        return e[2], e[2]
    if t == "diag":
        return len(e[2]), len(e[2])
    if t == "tridiag":
        return len(e[3]), len(e[3])
    if t == "perm":
        return len(e[2]), len(e[2])
    if t == "house":
        return len(e[2]), len(e[2])
    if t == "prod":
        return shape_of(e[1])[0], shape_of(e[-1])[1]
    if t == "sum":
        return shape_of(e[1])
    if t in ("kron", "kronsum"):
        r = c = 1
        for x in e[1:]:
            a, b = shape_of(x)
            r, c = r * a, c * b
        return r, c
    if t == "bdiag":
        r = c = 0
        for x, m in zip(e[1], e[2]):
            a, b = shape_of(x)
            r, c = r + a * m, c + b * m
        return r, c
    if t in ("T", "H"):
        a, b = shape_of(e[1])
        return b, a
    if t == "slice":
        a, b = shape_of(e[1])

        def n(ix, ext):
            return len(ix["a"]) if "a" in ix else len(range(*slice(*ix["s"]).indices(ext)))
        return n(e[2], a), n(e[3], b)
    if t == "concat":
        shs = [shape_of(x) for x in e[2:]]
        return (shs[0][0], sum(s[1] for s in shs)) if e[1] == 1 else (sum(s[0] for s in shs), shs[0][1])
    if t == "generic":
        return shape_of(e[1])
    if t == "ann":
        return shape_of(e[2])
    raise ValueError(t)
