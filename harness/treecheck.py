"""Differential engine for the exact-arithmetic family (C01, C02, C05, C20 …).

A *case* = operator expression + call + operands.  For every case three values are compared:
real (cola in-process), code (Lean code model) and spec (Lean `den`-based specification)."""
import collections
import json
import warnings

import numpy as np

import build
import common
import gen
import oracle

warnings.simplefilter("ignore")

F32_BOUND = 2 ** 24
F64_BOUND = 2 ** 53


def leaf_dtypes(e):
    out = []
    for s in gen.subexprs(e):
        if s[0] in ("dense", "tri", "sparse", "scalar", "eye", "diag", "tridiag", "perm", "house"):
            out.append(s[1])
    return out


def exact_bound(case):
    dts = leaf_dtypes(case["op"]) + ([case["xdt"]] if "xdt" in case else [])
    return F32_BOUND if any(d in ("f32", "c64") for d in dts) else F64_BOUND


def promote(a, b):
    return build.dtname(np.promote_types(build.DT[a], build.DT[b]))


class ErrClass:
    @staticmethod
    def of(ex):
        n = type(ex).__name__
        if n in ("AmbiguousLookupError",):
            return "ambiguous"
        if n in ("NotFoundLookupError",):
            return "not-found"
        if n in ("NotImplementedError", "NumpyNotImplementedError"):
            return "not-implemented"
        return "error:" + n


def run_real(case):
    """returns dict(value=nested [re,im] lists or None, shape, dtype, resdt) or dict(exc=…)"""
    try:
        A = build.Builder().build(case["op"])
        call = case["call"]
        out = {"shape": [int(A.shape[0]), int(A.shape[1])], "dtype": build.dtname(A.dtype),
               "anns": sorted(a.__name__ for a in A.annotations)}
        if call == "info":
            return out
        if call == "matmat":
            X = build.arr(case["x"], case["xdt"], (len(case["x"]), len(case["x"][0]) if case["x"] else 0))
            if case.get("vec"):
                Y = A @ X[:, 0]
                out["ndim"] = int(np.ndim(Y))
                Y = np.asarray(Y).reshape(-1, 1)
            else:
                Y = A @ X
        elif call == "rmatmat":
            X = build.arr(case["x"], case["xdt"], (len(case["x"]), len(case["x"][0]) if case["x"] else 0))
            if case.get("vec"):
                Y = X[0, :] @ A
                out["ndim"] = int(np.ndim(Y))
                Y = np.asarray(Y).reshape(1, -1)
            else:
                Y = X @ A
        elif call == "dense":
            import cola
            Y = A.to_dense() if not case.get("densify") else cola.densify(A)
        else:
            raise ValueError(call)
        Y = np.asarray(Y)
        out["value"] = build.exact_mat(Y)
        out["vshape"] = list(Y.shape)
        out["resdt"] = build.dtname(Y.dtype)
        return out
    except Exception as ex:  # noqa: BLE001
        return {"exc": ErrClass.of(ex), "msg": str(ex)[:200]}


def classify(case, ans, real):
    """-> (status, detail).  status in ok | inexact | known | violation | stale-model | skipped"""
    if "error" in ans:
        return "driver-error", ans["error"]
    if not ans.get("wf", True):
        return "skipped", "not well-formed"
    clauses = ans.get("clauses", [])
    if case["call"] == "info":
        return "ok", ""
    code, spec = ans["code"], ans["spec"]
    if ans.get("absbound", 0) >= exact_bound(case):
        return "inexact", ""
    problems = []
    if "exc" in real:
        problems.append(f"raised {real['exc']}: {real.get('msg', '')}")
        rv = None
    else:
        rv = real["value"]
        if real["shape"] != [ans["rows"], ans["cols"]]:
            problems.append(f"shape {real['shape']} vs model {[ans['rows'], ans['cols']]}")
        if real["dtype"] != ans["dtype"]:
            problems.append(f"operator dtype {real['dtype']} vs model {ans['dtype']}")
        want_dt = promote(ans["dtype"], case["xdt"]) if "xdt" in case else ans["dtype"]
        if real["resdt"] != want_dt:
            problems.append(f"result dtype {real['resdt']} vs promoted {want_dt}")
        if case.get("vec") and real.get("ndim") != 1:
            problems.append(f"1-D operand gave ndim {real.get('ndim')}")
    if rv is not None and rv == code and not problems:
        if code == spec:
            return "ok", ""
        return "known?", clauses
    # real differs from the code model (or raised / wrong dtype / shape)
    if rv is not None and rv == spec and not problems:
        return "stale-model", "real = spec but the code model predicts a different value"
    if rv is not None and rv != spec:
        problems.append("value differs from the represented matrix computation")
    return "violation", "; ".join(problems)


# ------------------------------------------------------------------------------------------ shrinking
def shrink_candidates(e):
    """smaller expressions of the same shape class (not necessarily same shape)"""
    t = e[0]
    out = []
    if t in ("prod", "sum", "kron", "kronsum"):
        kids = e[1:]
        for k in kids:
            out.append(k)
        if len(kids) > 2 or (len(kids) > 1 and t in ("kron", "kronsum", "sum")):
            for i in range(len(kids)):
                out.append([t] + kids[:i] + kids[i + 1:])
        for i, k in enumerate(kids):
            for s in shrink_candidates(k):
                out.append([t] + kids[:i] + [s] + kids[i + 1:])
    elif t == "bdiag":
        kids, mults = e[1], e[2]
        out += kids
        for i in range(len(kids)):
            if len(kids) > 1:
                out.append(["bdiag", kids[:i] + kids[i + 1:], mults[:i] + mults[i + 1:]])
            if mults[i] > 1:
                out.append(["bdiag", kids, mults[:i] + [mults[i] - 1] + mults[i + 1:]])
            for s in shrink_candidates(kids[i]):
                out.append(["bdiag", kids[:i] + [s] + kids[i + 1:], mults])
    elif t in ("T", "H", "generic"):
        out.append(e[1])
        out += [[t, s] for s in shrink_candidates(e[1])]
    elif t == "slice":
        out.append(e[1])
        out += [["slice", s, e[2], e[3]] for s in shrink_candidates(e[1])]
        out.append(["slice", e[1], {"s": [None, None, None]}, e[3]])
        out.append(["slice", e[1], e[2], {"s": [None, None, None]}])
    elif t == "concat":
        kids = e[2:]
        out += kids
        for i in range(len(kids)):
            if len(kids) > 1:
                out.append(["concat", e[1]] + kids[:i] + kids[i + 1:])
            for s in shrink_candidates(kids[i]):
                out.append(["concat", e[1]] + kids[:i] + [s] + kids[i + 1:])
    elif t == "ann":
        out.append(e[2])
    elif t in ("dense", "tri"):
        m = e[-1]
        nz = [(i, j) for i, row in enumerate(m) for j, v in enumerate(row) if v != 0]
        for (i, j) in nz[:6]:
            m2 = [list(r) for r in m]
            m2[i][j] = 0
            out.append(e[:-1] + [m2])
    return out


def shrink(case, still_fails, max_rounds=25):
    """greedy shrinking; `still_fails(list_of_cases) -> index of first failing or None`"""
    cur = case
    for _ in range(max_rounds):
        cands = []
        for s in shrink_candidates(cur["op"]):
            c = dict(cur)
            c["op"] = s
            c.pop("x", None)
            cands.append(c)
        if not cands:
            break
        idx = still_fails(cands)
        if idx is None:
            break
        cur = idx
    return cur


# ------------------------------------------------------------------------------------------ engine
class Engine:
    def __init__(self, ctx, G, calls):
        self.ctx = ctx
        self.G = G
        self.calls = calls
        self.stats = collections.Counter()
        self.kind_hist = collections.Counter()
        self.depth_hist = collections.Counter()
        self.dtype_hist = collections.Counter()
        self.shape_hist = collections.Counter()
        self.distinct = set()
        self.samples = []
        self.nid = 0
        self.known = common.known_clauses(ctx.prop)

    def cases_for_tree(self, e, info):
        """expand one tree into cases on every node; info: id->driver 'info' answers by canon(expr)"""
        out = []
        seen = set()
        for s in gen.subexprs(e):
            k = common.canon(s)
            if k in seen:
                continue
            seen.add(k)
            a = info.get(k)
            if a is None or "error" in a or not a.get("wf", True):
                self.stats["skipped-not-wf"] += 1
                continue
            for call in self.calls:
                out += self.make_cases(s, a, call)
        return out

    def make_cases(self, s, a, call):
        rng = self.G.rng
        cs = []
        if call == "matmat":
            dt, X = self.G.operand(a["cols"])
            cs.append({"call": "matmat", "op": s, "x": X, "xdt": dt})
            if rng.random() < 0.5:
                dt, X = self.G.operand(a["cols"], maxcols=1)
                cs.append({"call": "matmat", "op": s, "x": X, "xdt": dt, "vec": True})
        elif call == "rmatmat":
            dt, X = self.G.operand(a["rows"])
            XT = [list(r) for r in zip(*X)]
            cs.append({"call": "rmatmat", "op": s, "x": XT, "xdt": dt})
            if rng.random() < 0.5:
                dt, X = self.G.operand(a["rows"], maxcols=1)
                XT = [list(r) for r in zip(*X)]
                cs.append({"call": "rmatmat", "op": s, "x": XT, "xdt": dt, "vec": True})
        elif call == "dense":
            cs.append({"call": "dense", "op": s})
            if rng.random() < 0.3:
                cs.append({"call": "dense", "op": s, "densify": True})
        for c in cs:
            c["id"] = self.nid
            self.nid += 1
        return cs

    def info_pass(self, trees):
        cases, keys = [], {}
        for e in trees:
            for s in gen.subexprs(e):
                k = common.canon(s)
                if k not in keys:
                    keys[k] = len(cases)
                    cases.append({"id": len(cases), "call": "info", "op": s})
        ans = oracle.run_driver(cases)
        return {k: ans.get(i, {"error": "no answer"}) for k, i in keys.items()}

    def evaluate(self, cases):
        """-> list of (case, ans, real, status, detail)"""
        ans = oracle.run_driver(cases)
        out = []
        for c in cases:
            a = ans.get(c["id"], {"error": "no answer from driver"})
            real = run_real(c)
            st, det = classify(c, a, real)
            out.append((c, a, real, st, det))
        return out

    def run(self, trees):
        info = self.info_pass(trees)
        cases = []
        for e in trees:
            cases += self.cases_for_tree(e, info)
            self.depth_hist[gen.depth_of(e)] += 1
        results = self.evaluate(cases)
        for (c, a, real, st, det) in results:
            self.account(c, a, real, st, det)
        return results

    def account(self, c, a, real, st, det):
        ctx = self.ctx
        self.stats[st if st != "known?" else "code!=spec"] += 1
        self.stats["evaluations"] += 1
        self.kind_hist[c["op"][0]] += 1
        if "xdt" in c:
            self.dtype_hist[(a.get("dtype"), c["xdt"])] += 1
        if "rows" in a:
            r, cc = a["rows"], a["cols"]
            cls = "1xN" if r == 1 and cc > 1 else "Nx1" if cc == 1 and r > 1 else "wide8" if 8 * r < cc else "square" if r == cc else "tall" if r > cc else "wide"
            self.shape_hist[cls] += 1
        if st in ("ok", "known?") and nontrivial(c):
            self.distinct.add(common.canon([c["op"], c["call"], c.get("x"), c.get("vec"), c.get("xdt")]))
        if st == "ok" and len(self.samples) < 3 and nontrivial(c) and len(json.dumps(c)) < 900:
            self.samples.append({"case": c, "result": a.get("code")})
        if st == "known?":
            unknown = [cl for cl in det if cl not in self.known]
            if not det or unknown:
                common.violation(ctx, {"case": c, "model_code": a.get("code"), "spec": a.get("spec"), "real": real,
                                       "why": "real = code model, but differs from the specification and no recorded finding covers it",
                                       "clauses": det})
            else:
                for cl in det:
                    common.known_finding(ctx, cl, self.known[cl]["what"])
        elif st == "violation":
            small = self.shrink_case(c)
            common.violation(ctx, {"case": small["case"], "expected_spec": small["ans"].get("spec"), "real": small["real"],
                                   "detail": small["detail"], "original_case": c,
                                   "replay_cmd": f"./check {ctx.prop} quick --replay <this file>"})
        elif st == "stale-model":
            common.violation(ctx, {"case": c, "model_code": a.get("code"), "spec": a.get("spec"), "real": real,
                                   "broken": "correspondence stream of the code model (real agrees with the specification, not with the model)"},
                             no_input=True)
        elif st == "driver-error":
            self.stats["driver-error"] += 0
            ctx.notes.append(f"driver error on case {c.get('id')}: {det}")

    def shrink_case(self, c):
        best = {"case": c}

        def still_fails(cands):
            # re-derive operands for each candidate from its own shape
            info = self.info_pass([x["op"] for x in cands])
            full = []
            for x in cands:
                a = info.get(common.canon(x["op"]))
                if a is None or "error" in a or not a.get("wf", True):
                    continue
                ms = self.make_cases(x["op"], a, x["call"])
                for m in ms:
                    if bool(m.get("vec")) == bool(c.get("vec")) and bool(m.get("densify")) == bool(c.get("densify")):
                        full.append(m)
                        break
            if not full:
                return None
            for (cc, a, real, st, det) in self.evaluate(full):
                if st == "violation":
                    best.update({"case": cc, "ans": a, "real": real, "detail": det})
                    return cc
            return None
        (_, a, real, st, det) = self.evaluate([c])[0]
        best.update({"case": c, "ans": a, "real": real, "detail": det})
        try:
            shrink(c, still_fails)
        except Exception as ex:  # noqa: BLE001
            self.ctx.notes.append(f"shrinker failed: {ex}")
        return best

    def coverage(self):
        return {
            "evaluations": self.stats["evaluations"],
            "distinct_nontrivial": len(self.distinct),
            "outcomes": dict(self.stats),
            "kinds": dict(self.kind_hist),
            "depths": {str(k): v for k, v in sorted(self.depth_hist.items())},
            "shape_classes": dict(self.shape_hist),
            "dtype_pairs": {f"{k[0]}x{k[1]}": v for k, v in self.dtype_hist.items()},
            "samples": self.samples,
            "compare": "exact (Gaussian-integer payloads; cases whose magnitude bound leaves the exact range are counted as 'inexact' and not compared)",
        }


def nontrivial(c):
    e = c["op"]
    if gen.depth_of(e) < 1 and e[0] in ("eye", "scalar", "diag"):
        return False
    return True
