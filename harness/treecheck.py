"""Differential engine for the exact-arithmetic family (C01, C02, C05, C20 …).

A *case* = operator expression + call + operands.  For every case three values are compared:
real (cola in-process), code (Lean code model) and spec (Lean `den`-based specification)."""
import collections
import json
import os
import warnings

import numpy as np

import build
import common
import gen
import oracle

warnings.simplefilter("ignore")

MAX_SHRINKS = 3      # violations that are shrunk to a minimal failing input (the others keep their generated input)
MAX_NEIGHBOURHOODS = 6   # stale-model inputs whose neighbourhood is searched for a failing input
MAX_REPORTS = 40     # VIOLATION lines / replay files per run; further violations are counted in the evidence only
F32_BOUND = 2 ** 24
F64_BOUND = 2 ** 53


def leaf_dtypes(e):
    out = []
    for s in gen.subexprs(e):
        if s[0] in ("dense", "tri", "sparse", "scalar", "eye", "diag", "tridiag", "perm", "house"):
            out.append(s[1])
    return out


def exact_bound(case):
    dts = leaf_dtypes(case["op"]) + ([case["xdt"]] if "xdt" in case else [])
    return F32_BOUND if any(d in ("f32", "c64") for d in dts) else F64_BOUND


def absbound_of(ans):
    b = ans.get("absbound", 0)
    if isinstance(b, str):
        n, d = b.split("/")
        return int(n) / int(d) * int(d)   # mantissa bound: clear the (dyadic) denominator
    return b


def promote(a, b):
    return build.dtname(np.promote_types(build.DT[a], build.DT[b]))


KIND = {"Dense": "dense", "Triangular": "tri", "Sparse": "sparse", "ScalarMul": "scalar", "Identity": "eye",
        "Product": "prod", "Sum": "sum", "Kronecker": "kron", "KronSum": "kronsum", "BlockDiag": "bdiag",
        "Diagonal": "diag", "Tridiagonal": "tridiag", "Transpose": "T", "Adjoint": "H", "Sliced": "slice",
        "Permutation": "perm", "Concatenated": "concat", "Householder": "house", "LinearOperator": "generic"}
ANN_ORDER = ["SelfAdjoint", "PSD", "Stiefel", "Unitary"]


def ann_list(op):
    names = {a.__name__ for a in op.annotations}
    return [a for a in ANN_ORDER if a in names]


def skel(op):
    """kind tree of a real operator: [kind, annotations, children...]"""
    name = type(op).__name__.split("[")[0]
    k = KIND.get(name, "?" + name)
    kids = []
    if k in ("prod", "sum", "kron", "kronsum", "bdiag", "concat"):
        kids = list(op.Ms)
    elif k in ("T", "H", "slice"):
        kids = [op.A]
    return [k, ann_list(op)] + [skel(x) for x in kids]


def alias_gap(op):
    """True iff the real operator contains a two-member Product `W(X') @ X` / `X @ W(X')` (W = Transpose / Adjoint) whose
    X' and X are structurally equal but DIFFERENT Python objects.  The code model identifies `is` with structural equality
    (build.Builder shares equal sub-expressions); an operator the algebra itself creates (e.g. the ScalarMul of `-A`) can be
    equal to an existing one without being it, and then the model's Gram inference says more than cola's -- such an input is
    outside the modelling assumption and its annotations are not compared."""
    import cola

    def same(a, b):
        if type(a) is not type(b) or a.shape != b.shape or a.dtype != b.dtype or skel(a) != skel(b):
            return False
        return np.array_equal(np.asarray(a.to_dense()), np.asarray(b.to_dense()))

    def walk(o):
        name = type(o).__name__.split("[")[0]
        kids = list(getattr(o, "Ms", [])) if name in ("Product", "Sum", "Kronecker", "KronSum", "BlockDiag", "Concatenated") else \
            ([o.A] if name in ("Transpose", "Adjoint", "Sliced") else [])
        if name == "Product" and len(kids) == 2:
            for w, x in ((kids[0], kids[1]), (kids[1], kids[0])):
                if isinstance(w, (cola.ops.Transpose, cola.ops.Adjoint)) and w.A is not x and same(w.A, x):
                    return True
        return any(walk(k) for k in kids)
    try:
        return walk(op)
    except Exception:  # noqa: BLE001
        return False


def py_ix(j):
    if "i" in j:
        return int(j["i"])
    if "l" in j:
        return list(j["l"])
    return build.ix(j)


def err_class(ex):
    n = type(ex).__name__
    if n == "IndexError":
        return "index-error"
    if n in ("NotImplementedError", "NumpyNotImplementedError"):
        return "not-implemented"
    if n == "AmbiguousLookupError":
        return "ambiguous"
    if n == "NotFoundLookupError":
        return "not-found"
    return "error:" + n


def run_real(case):
    """observation of the real code: dict of canonical values, or {'err': class, 'msg': …}"""
    try:
        import cola
        A = build.Builder().build(case["op"])
        call = case["call"]
        out = {"shape": [int(A.shape[0]), int(A.shape[1])], "dtype": build.dtname(A.dtype), "anns": ann_list(A)}
        if call == "info":
            out["skel"] = skel(A)
            return out
        if call in ("matmat", "rmatmat"):
            X = build.arr(case["x"], case["xdt"], (len(case["x"]), len(case["x"][0]) if case["x"] else 0))
            if call == "matmat":
                Y = A @ (X[:, 0] if case.get("vec") else X)
            else:
                Y = (X[0, :] if case.get("vec") else X) @ A
            if case.get("vec"):
                out["ndim"] = int(np.ndim(Y))
                Y = np.asarray(Y).reshape((-1, 1) if call == "matmat" else (1, -1))
            Y = np.asarray(Y)
            out["v"] = build.exact_mat(Y)
            out["resdt"] = build.dtname(Y.dtype)
        elif call == "dense":
            Y = np.asarray(A.to_dense() if not case.get("densify") else cola.densify(A))
            out["v"] = build.exact_mat(Y)
            out["resdt"] = build.dtname(Y.dtype)
        elif call == "tower":
            B = A
            for ch in case["tower"]:
                B = B.T if ch == "T" else B.H
            out["rshape"] = [int(B.shape[0]), int(B.shape[1])]
            out["rdtype"] = build.dtname(B.dtype)
            out["ranns"] = ann_list(B)
            out["skel"] = skel(B)
            out["v"] = build.exact_mat(np.asarray(B.to_dense()))
        elif call == "getitem":
            ids = [py_ix(j) for j in case["ids"]]
            r = A[ids[0]] if len(ids) == 1 else A[tuple(ids)]
            if isinstance(r, cola.ops.LinearOperator):
                out["res"] = {"kind": "op", "rows": int(r.shape[0]), "cols": int(r.shape[1]),
                              "value": build.exact_mat(np.asarray(r.to_dense())), "skel": skel(r), "anns": ann_list(r)}
                out["resdt"] = build.dtname(r.dtype)
            else:
                r = np.asarray(r)
                out["resdt"] = build.dtname(r.dtype)
                if r.ndim == 0:
                    out["res"] = {"kind": "scalar", "value": build.exact_mat(r.reshape(1))[0]}
                elif r.ndim == 1:
                    out["res"] = {"kind": "vec", "value": build.exact_mat(r)}
                else:
                    out["res"] = {"kind": "array%d" % r.ndim, "value": build.exact_mat(r)}
        else:
            raise ValueError(call)
        return out
    except Exception as ex:  # noqa: BLE001
        return {"err": err_class(ex), "msg": str(ex)[:200]}


def anns_true(anns, den):
    """list of the reported annotations that are FALSE of the (exact, Gaussian-integer) matrix"""
    def fq(x):
        if isinstance(x, str):
            n, d = x.split("/")
            return int(n) / int(d)
        return x
    M = np.array([[complex(fq(z[0]), fq(z[1])) for z in row] for row in den], dtype=np.complex128)
    if M.size == 0:
        return []
    r, c = M.shape
    herm = r == c and np.array_equal(M, M.conj().T)
    false = []
    for a in anns:
        if a == "SelfAdjoint":
            ok = herm
        elif a == "PSD":
            ok = herm and np.linalg.eigvalsh(M).min() >= -1e-9 * max(1.0, np.abs(M).max())
        elif a == "Stiefel":
            ok = np.array_equal(M.conj().T @ M, np.eye(c))
        elif a == "Unitary":
            ok = r == c and np.array_equal(M.conj().T @ M, np.eye(c)) and np.array_equal(M @ M.conj().T, np.eye(r))
        else:
            ok = False
        if not ok:
            false.append(a)
    return false


def getitem_attribution(case, ans):
    """-> (clauses, unexplained).  The recorded clauses that explain, ENTRY BY ENTRY, where the code model's answer differs
    from NumPy indexing of the represented matrix (`den`, printed by the driver), and a description of the part of the
    difference that no clause explains (None if everything is explained).  An unexplained part is a VIOLATION, whatever
    clauses the operand's tree carries.

    * `getitem-array-pair-outer`: two integer ARRAYS; NumPy pairs them (a vector), the code returns an operator.  Attributed
      only if that operator has the shape of the outer (`np.ix_`) selection `den[ia][:, ja]`; its entries are attributed as
      below.
    * `sliced-repeated-index`: the returned `Sliced` operator repeats a resolved index.  Attributed only to entries in a
      repeated row / column position.
    * tree-level clauses (`Op.clauses` of the operand, `ans["clauses"]`): the operand's OWN code-model dense matrix
      (`codeDense` = `Op.td`, printed by the driver) differs from `den`.  Attributed only to an entry (p, q) of the answer whose
      source entry differs, `codeDense[ia[p]][ja[q]] != den[ia[p]][ja[q]]`, and which inherits exactly that value; for an
      answer that is not an operator (scalar, vector, error) only if the whole answer IS NumPy indexing of `codeDense`
      (`tdIndex`; or of `codeDenseR` = `I @ A`, `tdIndexR`: rows are read by `e_i @ A`; or of `codeDenseM` = `A @ I`, `tdIndexM`:
      columns are read by `A @ e_j`, which is not how `to_dense` of a wide operand is computed) and that matrix differs from `den`.
    An entry that differs from the outer selection anywhere else is unexplained."""
    ids, code, den, td = case["ids"], ans["code"], ans.get("den"), ans.get("codeDense")
    rows, cols = ans.get("rows", 0), ans.get("cols", 0)
    tree = list(ans.get("clauses", []))

    def positions(j, n):
        if "a" in j:
            if any(not -n <= x < n for x in j["a"]):
                return None
            return [x % n for x in j["a"]]
        if "s" in j:
            return list(range(*slice(*j["s"]).indices(n)))
        return None
    if den is None or td is None:
        return [], "the driver did not print den / codeDense"
    if code.get("kind") != "op" or len(ids) != 2:
        # scalar / vector / error answers: the indexing step itself must be NumPy indexing of the operand's own dense matrix
        # (`codeDense` = A @ I, what columns are read from, or `codeDenseR` = I @ A, what rows are read from)
        for dk, ik in (("codeDense", "tdIndex"), ("codeDenseR", "tdIndexR"), ("codeDenseM", "tdIndexM")):
            ti, dm = ans.get(ik) or {}, ans.get(dk)
            keys = [k for k in ("kind", "value", "rows", "cols") if k in code or k in ti]
            if tree and dm is not None and dm != den and all(code.get(k) == ti.get(k) for k in keys):
                return tree, None
        return [], ("the answer of the code model is not an operator selected by two index objects, and is not NumPy indexing of "
                    "the operand's own dense matrix under a tree-level clause")
    ia, ja = positions(ids[0], rows), positions(ids[1], cols)
    if ia is None or ja is None:
        return [], "an index is out of range, the code model answered with an operator"
    if code.get("rows") != len(ia) or code.get("cols") != len(ja):
        return [], "the returned operator does not have the shape of the outer selection"
    outer = [[den[i][j] for j in ja] for i in ia]
    val = code["value"]
    dup_r = {p for p, i in enumerate(ia) if ia.count(i) > 1}
    dup_c = {q for q, j in enumerate(ja) if ja.count(j) > 1}
    diff = [(p, q) for p in range(len(ia)) for q in range(len(ja)) if val[p][q] != outer[p][q]]
    clauses = []
    if all("a" in j for j in ids):
        clauses.append("getitem-array-pair-outer")
    bad, used_dup, used_tree = [], False, False
    for (p, q) in diff:
        i, j = ia[p], ja[q]
        if tree and td[i][j] != den[i][j] and val[p][q] == td[i][j]:
            used_tree = True
        elif p in dup_r or q in dup_c:
            used_dup = True
        else:
            bad.append((p, q))
    if bad:
        return clauses, (f"entries {bad[:4]} of the returned operator differ from the outer selection outside repeated indices "
                         "and do not inherit a differing entry of the operand's own dense matrix")
    if used_dup:
        clauses.append("sliced-repeated-index")
    if used_tree:
        clauses += [c for c in tree if c not in clauses]
    return clauses, None


def case_clauses(case, ans):
    """the recorded clauses that explain a `real = code != spec` outcome of this case; [] = none does (a VIOLATION).
    Tree-level clauses come from the driver (`Op.clauses` of the operator the call is made on).  For `getitem` EVERY clause -
    of the indexing step and of the tree - is attributed entry by entry (`getitem_attribution`); a part of the difference
    that no clause explains makes the case a VIOLATION even when the tree carries a clause."""
    if case["call"] == "getitem":
        got, unexplained = getitem_attribution(case, ans)
        return [] if unexplained is not None else got
    return list(ans.get("clauses", []))


def observations(case, ans, real):
    """-> (real_obs, code_obs, spec_obs): dicts; real must equal code on all keys of code, and
    code must equal spec on all keys of spec"""
    call = case["call"]
    # dtype: real (cola object / returned array) = code model (`Op.dtype`: what the constructors compute; `resdt` = `Op.mmDt` /
    # `Op.rmmDt`, Model/MatmatDtype.lean: what each class's `_matmat` / `_rmatmat` does with dtypes, by recursion over the tree)
    # = specification (`Op.dtypeSpec`, `Op.mmDtypeSpec`: join of the leaf dtypes and the operand's)
    if call in ("matmat", "rmatmat", "dense"):
        code = {"v": ans["code"], "shape": [ans["rows"], ans["cols"]], "dtype": ans["dtype"], "resdt": ans["resdt"]}
        if case.get("vec"):
            code["ndim"] = 1
        spec = {"v": ans["spec"], "shape": code["shape"], "dtype": ans["dtypeSpec"], "resdt": ans["resdtSpec"]}
        if "xdt" in case:
            # NumPy's own promotion table as a third opinion on the model of promotion (DType.promote)
            np_dt = promote(ans["dtype"], case["xdt"])
            if np_dt != ans["resdt"]:
                spec["resdt"] = np_dt
            # `resdtPromote` (Op.mmDtype = promote_types(A.dtype, X.dtype), the definitional round-2 value) is an independent
            # specification value of the recursive code model `resdt` (Op.mmDt / Op.rmmDt): equal on every wf tree
            # (C01_result_dtype_promote), so a disagreement is a code != spec outcome
            if ans.get("resdtPromote", ans["resdt"]) != ans["resdt"]:
                spec["resdt"] = ans["resdtPromote"]
    elif call == "tower":
        code = {"v": ans["code"], "rshape": [ans["rrows"], ans["rcols"]], "rdtype": ans["rdtype"],
                "ranns": ans["ranns"], "skel": ans["skel"], "dtype": ans["dtype"]}
        spec = {"v": ans["spec"], "rshape": code["rshape"], "rdtype": ans["rdtypeSpec"], "dtype": ans["dtypeSpec"]}
    elif call == "getitem":
        c, sp = ans["code"], ans["spec"]
        if c["kind"] == "err":
            code = {"err": c["value"]}
        else:
            code = {"res": c, "resdt": ans["resdt"], "dtype": ans["dtype"]}
        if sp["kind"] == "err":
            spec = {"err": sp["value"]}
        else:
            spec = {"res": {k: sp[k] for k in ("kind", "value", "rows", "cols") if k in sp}, "resdt": ans["resdtSpec"]}
    elif call == "info":
        code = {"shape": [ans["rows"], ans["cols"]], "dtype": ans["dtype"], "anns": ans["anns"], "skel": ans["skel"],
                "anns_true": anns_true(ans["anns"], ans["den"])}
        spec = {"shape": code["shape"], "anns_true": [], "dtype": ans["dtypeSpec"]}
        if "anns" in real:
            real = dict(real)
            real["anns_true"] = anns_true(real["anns"], ans["den"])
    else:
        raise ValueError(call)
    return real, code, spec


def sub_agree(a, b):
    """b's keys (recursively for dict values) all present and equal in a"""
    for k, v in b.items():
        if k not in a:
            return False, k
        if isinstance(v, dict) and isinstance(a[k], dict):
            ok, kk = sub_agree(a[k], v)
            if not ok:
                return False, f"{k}.{kk}"
        elif a[k] != v:
            return False, k
    return True, None


def classify(case, ans, real):
    """-> (status, detail).  status in ok | inexact | known? | violation | stale-model | skipped | driver-error"""
    if "error" in ans:
        return "driver-error", ans["error"]
    if not ans.get("wf", True):
        return "skipped", "not well-formed"
    if absbound_of(ans) >= exact_bound(case):
        return "inexact", ""
    real, code, spec = observations(case, ans, real)
    rc, kc = sub_agree(real, code)
    cs, ks = sub_agree(code, spec)
    if rc:
        if cs:
            return "ok", ""
        return "known?", case_clauses(case, ans)
    rs, krs = sub_agree(real, spec)
    if rs and cs:
        return "stale-model", f"real agrees with the specification but not with the code model on '{kc}'"
    if rs and not cs:
        return "stale-model", f"real = spec but the code model (which mirrors a recorded defect) predicts otherwise on '{kc}'"
    msg = f"real differs from the code model on '{kc}' and from the specification on '{krs}'"
    if "err" in real:
        msg += f" (raised {real['err']}: {real.get('msg', '')})"
    return "violation", msg


# ------------------------------------------------------------------------------------------ shrinking
def shrink_candidates(e):
    """smaller expressions of the same shape class (not necessarily same shape)"""
    t = e[0]
    out = []
    if t in ("prod", "sum", "kron", "kronsum"):
        kids = e[1:]
        for k in kids:
            out.append(k)
        if len(kids) > 2 or (len(kids) > 1 and t in ("kron", "kronsum", "sum")):
            for i in range(len(kids)):
                out.append([t] + kids[:i] + kids[i + 1:])
        for i, k in enumerate(kids):
            for s in shrink_candidates(k):
                out.append([t] + kids[:i] + [s] + kids[i + 1:])
    elif t == "bdiag":
        kids, mults = e[1], e[2]
        out += kids
        for i in range(len(kids)):
            if len(kids) > 1:
                out.append(["bdiag", kids[:i] + kids[i + 1:], mults[:i] + mults[i + 1:]])
            if mults[i] > 1:
                out.append(["bdiag", kids, mults[:i] + [mults[i] - 1] + mults[i + 1:]])
            for s in shrink_candidates(kids[i]):
                out.append(["bdiag", kids[:i] + [s] + kids[i + 1:], mults])
    elif t in ("T", "H", "generic"):
        out.append(e[1])
        out += [[t, s] for s in shrink_candidates(e[1])]
    elif t == "slice":
        out.append(e[1])
        out += [["slice", s, e[2], e[3]] for s in shrink_candidates(e[1])]
        out.append(["slice", e[1], {"s": [None, None, None]}, e[3]])
        out.append(["slice", e[1], e[2], {"s": [None, None, None]}])
    elif t == "concat":
        kids = e[2:]
        out += kids
        for i in range(len(kids)):
            if len(kids) > 1:
                out.append(["concat", e[1]] + kids[:i] + kids[i + 1:])
            for s in shrink_candidates(kids[i]):
                out.append(["concat", e[1]] + kids[:i] + [s] + kids[i + 1:])
    elif t == "ann":
        out.append(e[2])
        # the wrapper around each shrunk operand (the shrinker drops candidates whose declaration became false)
        out += [["ann", e[1], s] for s in shrink_candidates(e[2])]
    elif t in ("dense", "tri"):
        m = e[-1]
        nz = [(i, j) for i, row in enumerate(m) for j, v in enumerate(row) if v != 0]
        for (i, j) in nz[:6]:
            m2 = [list(r) for r in m]
            m2[i][j] = 0
            out.append(e[:-1] + [m2])
    return out


def shrink(case, still_fails, max_rounds=25):
    """greedy shrinking; `still_fails(list_of_cases) -> index of first failing or None`"""
    cur = case
    for _ in range(max_rounds):
        cands = []
        for s in shrink_candidates(cur["op"]):
            c = dict(cur)
            c["op"] = s
            c.pop("x", None)
            cands.append(c)
        if not cands:
            break
        idx = still_fails(cands)
        if idx is None:
            break
        cur = idx
    return cur


# ------------------------------------------------------------------------------------------ neighbourhood
def declarations_true(e, info):
    """every `ann` node of e declares a property its operand really has (exact test on the model's `den`)"""
    for s in gen.subexprs(e):
        if s[0] == "ann":
            a = info.get(common.canon(s[2]))
            if a is None or "den" not in a:
                return False
            if anns_true([s[1]], a["den"]):
                return False
    return True


def neighbours(e, G, k=16):
    """variants of an operator expression with the same kind tree: fresh payloads of undeclared leaves, other leaf dtypes,
    declarations dropped, declared leaves replaced by other matrices with the same (true) property, index selections replaced
    by permuted ones.  Used when the real code disagrees with the code model but not (yet) with the specification."""
    rng = G.rng
    out = []
    memo = {}

    def vary(x, declared=False):
        # equal sub-expressions are ONE shared object in the built operator (A.H @ A): vary them consistently
        key = (common.canon(x), declared)
        if key not in memo:
            memo[key] = vary1(x, declared)
        return memo[key]

    def vary1(x, declared=False):
        t = x[0]
        r = rng.random()
        if t == "dense" and not declared:
            dt = x[1] if r < 0.5 else rng.choice(gen.DTYPES)
            return ["dense", dt, x[2], x[3], G.mat(dt, x[2], x[3])]
        if t == "diag" and not declared:
            dt = x[1] if r < 0.5 else rng.choice(gen.DTYPES)
            return ["diag", dt, G.vec(dt, len(x[2]))]
        if t == "scalar" and not declared and r < 0.5:
            return ["scalar", x[1], G.z(x[1]), x[3]]
        if t in ("eye", "perm") and r < 0.3:
            return [t, rng.choice(gen.DTYPES)] + x[2:]
        if t == "ann":
            if r < 0.25:
                return vary(x[2])
            y = x[2]
            if y[0] == "dense" and y[2] == y[3] and x[1] in ("SelfAdjoint", "PSD") and r < 0.8:
                dt = rng.choice(["c64", "c128", y[1]])
                return ["ann", x[1], ["dense", dt, y[2], y[2], G.herm(dt, y[2]) if x[1] == "SelfAdjoint" else G.psd(dt, y[2])]]
            return ["ann", x[1], vary(y, declared=True)]
        if t in ("prod", "sum", "kron", "kronsum"):
            return [t] + [vary(y, declared) for y in x[1:]]
        if t == "bdiag":
            return ["bdiag", [vary(y, declared) for y in x[1]], x[2]]
        if t == "concat":
            return ["concat", x[1]] + [vary(y, declared) for y in x[2:]]
        if t in ("T", "H", "generic"):
            return [t, vary(x[1], declared)]
        if t == "slice":
            a, b = gen.shape_of(x[1])

            def sel(ix, n):
                return [int(v) for v in (np.arange(n)[np.array(ix["a"], dtype=np.int64)] if "a" in ix else np.arange(n)[slice(*ix["s"])])]
            i0, i1 = x[2], x[3]
            if r < 0.5:
                p0, p1 = sel(i0, a), sel(i1, b)
                if rng.random() < 0.5:
                    p1 = p1[::-1] if rng.random() < 0.5 else rng.sample(p1, len(p1))
                else:
                    p0 = p0[::-1] if rng.random() < 0.5 else rng.sample(p0, len(p0))
                i0, i1 = {"a": p0}, {"a": p1}
            return ["slice", vary(x[1], declared), i0, i1]
        return x
    seen = {common.canon(e)}
    for _ in range(4 * k):
        memo.clear()
        v = vary(e)
        key = common.canon(v)
        if key not in seen:
            seen.add(key)
            out.append(v)
        if len(out) >= k:
            break
    return out


# ------------------------------------------------------------------------------------------ engine
class Engine:
    def __init__(self, ctx, G, calls, provisional=None):
        self.ctx = ctx
        self.G = G
        self.calls = calls
        self.stats = collections.Counter()
        self.kind_hist = collections.Counter()
        self.depth_hist = collections.Counter()
        self.dtype_hist = collections.Counter()
        self.shape_hist = collections.Counter()
        self.distinct = set()
        self.samples = []
        self.not_compared = collections.Counter()
        self.nid = 0
        self.in_search = False
        self.known = common.known_clauses(ctx.prop)
        # findings of this run's property module that are not yet decided (PROVISIONAL_KNOWN of props/<id>.py)
        for k, v in (provisional or {}).items():
            self.known.setdefault(k, {"what": v if isinstance(v, str) else v.get("what", ""), "provisional": True})

    def cases_for_tree(self, e, info):
        """expand one tree into cases on every node; info: id->driver 'info' answers by canon(expr)"""
        out = []
        seen = set()
        for s in gen.subexprs(e):
            k = common.canon(s)
            if k in seen:
                continue
            seen.add(k)
            a = info.get(k)
            if a is None or "error" in a or not a.get("wf", True):
                self.stats["skipped-not-wf"] += 1
                continue
            for call in self.calls:
                out += self.make_cases(s, a, call)
        return out

    def make_cases(self, s, a, call):
        rng = self.G.rng
        cs = []
        if call == "matmat":
            dt, X = self.G.operand(a["cols"])
            cs.append({"call": "matmat", "op": s, "x": X, "xdt": dt})
            if rng.random() < 0.5:
                dt, X = self.G.operand(a["cols"], maxcols=1)
                cs.append({"call": "matmat", "op": s, "x": X, "xdt": dt, "vec": True})
        elif call == "rmatmat":
            dt, X = self.G.operand(a["rows"])
            XT = [list(r) for r in zip(*X)]
            cs.append({"call": "rmatmat", "op": s, "x": XT, "xdt": dt})
            if rng.random() < 0.5:
                dt, X = self.G.operand(a["rows"], maxcols=1)
                XT = [list(r) for r in zip(*X)]
                cs.append({"call": "rmatmat", "op": s, "x": XT, "xdt": dt, "vec": True})
        elif call == "dense":
            cs.append({"call": "dense", "op": s})
            if rng.random() < 0.3:
                cs.append({"call": "dense", "op": s, "densify": True})
        elif call == "tower":
            for tw in rng.sample(["T", "H", "TT", "HH", "TH", "HT", "TTT", "HHH", "THT", "HTH", "TTH", "HHT"], 3):
                cs.append({"call": "tower", "op": s, "tower": tw})
        elif call == "info":
            cs.append({"call": "info", "op": s})
        elif call == "getitem":
            cs += self.getitem_cases(s, a)
        for c in cs:
            c["id"] = self.nid
            self.nid += 1
        return cs

    def getitem_cases(self, s, a):
        rng = self.G.rng
        r, c = a["rows"], a["cols"]
        if r == 0 or c == 0:
            return []
        G = self.G

        def rint(n):
            return {"i": rng.randrange(-n, n)}

        def rix(n, allow_arr=True):
            want = rng.randint(0, n)
            if allow_arr and rng.random() < 0.3:
                return {"a": [rng.randrange(-n, n) for _ in range(rng.randint(1, n))]}
            return {"s": rng.choice(G.slices_of_len(n, want))}

        def rlist(n, k):
            return {"l": [rng.randrange(-n, n) for _ in range(k)]}
        forms = []
        forms.append([rint(r)])
        forms.append([rint(r), rint(c)])
        forms.append([rint(r), rix(c)])
        forms.append([rix(r), rint(c)])
        forms.append([rix(r)])
        forms.append([rix(r), rix(c)])
        k = rng.randint(1, 3)
        forms.append([rlist(r, k), rlist(c, k)])
        forms.append([rint(r), rlist(c, k)])
        forms.append([rlist(r, k), rint(c)])
        # two lists of DIFFERENT lengths (NumPy broadcasts a length-1 list and raises IndexError otherwise) and empty lists
        k2 = rng.choice([x for x in (0, 1, 1, 2, 3, 4) if x != k])
        forms.append([rlist(r, k), rlist(c, k2)] if rng.random() < 0.5 else [rlist(r, k2), rlist(c, k)])
        if rng.random() < 0.1:
            forms.append([{"l": []}, {"l": []}])
        if rng.random() < 0.15:   # out-of-range integer
            forms.append([{"i": rng.choice([r, -r - 1])}])
            forms.append([rix(r), {"i": rng.choice([c, -c - 1])}])
        pick = rng.sample(forms, min(len(forms), 4))
        out = [{"call": "getitem", "op": s, "ids": f} for f in pick]
        # products with the lazy slice ("complex operands multiplied into a slice"): A[ix0, ix1] @ X and X @ A[ix0, ix1],
        # from BOTH sides with an operand of EVERY dtype (the scatter buffers of Sliced._matmat / _rmatmat must take the
        # promoted dtype of operator and operand), 2-D and (one side, at random) 1-D
        if rng.random() < 0.4:
            i0, i1 = rix(r), rix(c)
            sl = ["slice", s, i0, i1]
            nr = len(i0["a"]) if "a" in i0 else len(range(*slice(*i0["s"]).indices(r)))
            nc = len(i1["a"]) if "a" in i1 else len(range(*slice(*i1["s"]).indices(c)))
            vside = rng.choice(["matmat", "rmatmat", None])
            for xdt in gen.DTYPES:
                dt, X = G.operand(nc, dt=xdt, maxcols=2)
                out.append({"call": "matmat", "op": sl, "x": X, "xdt": dt})
                dt, X = G.operand(nr, dt=xdt, maxcols=2)
                out.append({"call": "rmatmat", "op": sl, "x": [list(q) for q in zip(*X)], "xdt": dt})
            if vside and nr > 0 and nc > 0:
                xdt = rng.choice(["c64", "c128"])
                dt, X = G.operand(nc if vside == "matmat" else nr, dt=xdt, maxcols=1)
                X = X if vside == "matmat" else [list(q) for q in zip(*X)]
                out.append({"call": vside, "op": sl, "x": X, "xdt": dt, "vec": True})
        return out

    def info_pass(self, trees):
        cases, keys = [], {}
        for e in trees:
            for s in gen.subexprs(e):
                k = common.canon(s)
                if k not in keys:
                    keys[k] = len(cases)
                    cases.append({"id": len(cases), "call": "info", "op": s})
        ans = oracle.run_driver(cases)
        return {k: ans.get(i, {"error": "no answer"}) for k, i in keys.items()}

    def evaluate(self, cases):
        """-> list of (case, ans, real, status, detail)"""
        # the case stream is written to disk before it is run, so any disagreement replays exactly
        with open(os.path.join(common.WORK, f"{self.ctx.prop}_cases.jsonl"), "a") as f:
            for c in cases:
                f.write(json.dumps(c) + "\n")
        ans = oracle.run_driver(cases)
        out = []
        for c in cases:
            a = ans.get(c["id"], {"error": "no answer from driver"})
            real = run_real(c)
            st, det = classify(c, a, real)
            out.append((c, a, real, st, det))
        return out

    def run(self, trees):
        info = self.info_pass(trees)
        cases = []
        for e in trees:
            cases += self.cases_for_tree(e, info)
            self.depth_hist[gen.depth_of(e)] += 1
        results = self.evaluate(cases)
        for (c, a, real, st, det) in results:
            self.account(c, a, real, st, det)
        return results

    def account(self, c, a, real, st, det):
        ctx = self.ctx
        self.stats[st if st != "known?" else "code!=spec"] += 1
        self.stats["evaluations"] += 1
        self.kind_hist[c["op"][0]] += 1
        if "xdt" in c:
            self.dtype_hist[(a.get("dtype"), c["xdt"])] += 1
        if "rows" in a:
            r, cc = a["rows"], a["cols"]
            cls = "1xN" if r == 1 and cc > 1 else "Nx1" if cc == 1 and r > 1 else "wide8" if 8 * r < cc else "square" if r == cc else "tall" if r > cc else "wide"
            self.shape_hist[cls] += 1
        if st in ("ok", "known?") and nontrivial(c):
            self.distinct.add(common.canon([c["op"], c["call"], c.get("x"), c.get("vec"), c.get("xdt"), c.get("tower"), c.get("ids")]))
        if st == "ok" and len(self.samples) < 3 and nontrivial(c) and len(json.dumps(c)) < 900:
            self.samples.append({"case": c, "model_answer": {k: a.get(k) for k in ("code", "skel", "anns") if k in a}})
        if st in ("driver-error", "skipped", "inexact"):
            self.not_compared[f"{st}: {str(det)[:80]}" if det else st] += 1
        if st == "known?":
            unknown = [cl for cl in det if cl not in self.known]
            if not det or unknown:
                payload = {"case": c, "model_code": a.get("code"), "spec": a.get("spec"), "real": real,
                           "why": "real = code model, but differs from the specification and no recorded finding covers it",
                           "clauses": det}
                if c["call"] == "getitem":
                    payload["indexing_clauses"], payload["unexplained"] = getitem_attribution(c, a)
                common.violation(ctx, payload)
            else:
                for cl in det:
                    common.known_finding(ctx, cl, self.known[cl]["what"])
        elif st == "violation":
            # every violation is reported with its concrete failing input; only the first few are also shrunk (each
            # shrinking round re-runs the driver), and after MAX_REPORTS reports the rest are only counted
            self.stats["violations_seen"] += 1
            if self.stats["violations_seen"] > MAX_REPORTS:
                return
            if self.stats["violations_seen"] <= MAX_SHRINKS:
                small = self.shrink_case(c)
            else:
                small = {"case": c, "ans": a, "real": real, "detail": det}
            common.violation(ctx, {"case": small["case"], "expected_spec": small.get("ans", {}).get("spec"), "real": small["real"],
                                   "detail": small["detail"], "original_case": c,
                                   "replay_cmd": f"./check {ctx.prop} quick --replay <this file>"})
        elif st == "stale-model":
            # the real code left the code model without (on this input) contradicting the specification: search the
            # neighbourhood of the input for one on which it does
            self.stats["stale_seen"] += 1
            found = None
            if self.stats["stale_seen"] <= MAX_NEIGHBOURHOODS and not self.in_search:
                found = self.neighbourhood(c)
            if found is not None:
                common.violation(ctx, {"case": found["case"], "expected_spec": found["ans"].get("spec"), "real": found["real"],
                                       "detail": found["detail"], "found_near": c,
                                       "why": "found in the neighbourhood of an input on which the real code disagrees with the code model",
                                       "replay_cmd": f"./check {ctx.prop} quick --replay <this file>"})
            elif self.stats["stale_seen"] <= MAX_REPORTS:
                common.violation(ctx, {"case": c, "model_code": a.get("code"), "spec": a.get("spec"), "real": real,
                                       "broken": "correspondence stream of the code model (real agrees with the specification, not with the model)"},
                                 no_input=True)
        elif st == "driver-error":
            self.stats["driver-error"] += 0
            ctx.notes.append(f"driver error on case {c.get('id')}: {det}")

    def neighbourhood(self, c):
        """-> first neighbour of case c classified `violation` (dict case/ans/real/detail), or None"""
        self.in_search = True
        try:
            cands = neighbours(c["op"], self.G)
            if not cands:
                return None
            info = self.info_pass(cands)
            full = []
            for x in cands:
                a = info.get(common.canon(x))
                if a is None or "error" in a or not a.get("wf", True) or not declarations_true(x, info):
                    continue
                for m in self.make_cases(x, a, c["call"])[:2]:
                    for kk in ("tower",):
                        if kk in c:
                            m[kk] = c[kk]
                    full.append(m)
            for (cc, a, real, st, det) in self.evaluate(full):
                if st == "violation":
                    return {"case": cc, "ans": a, "real": real, "detail": det}
            return None
        except Exception as ex:  # noqa: BLE001
            self.ctx.notes.append(f"neighbourhood search failed: {ex}")
            return None
        finally:
            self.in_search = False

    def shrink_case(self, c):
        best = {"case": c}

        def still_fails(cands):
            # re-derive operands for each candidate from its own shape
            info = self.info_pass([x["op"] for x in cands])
            full = []
            for x in cands:
                a = info.get(common.canon(x["op"]))
                if a is None or "error" in a or not a.get("wf", True) or not declarations_true(x["op"], info):
                    continue
                ms = self.make_cases(x["op"], a, x["call"])
                for m in ms:
                    if c["call"] in ("tower", "getitem"):
                        m2 = dict(m)
                        for kk in ("tower", "ids"):
                            if kk in c:
                                m2[kk] = c[kk]
                        full.append(m2)
                        break
                    if bool(m.get("vec")) == bool(c.get("vec")) and bool(m.get("densify")) == bool(c.get("densify")):
                        full.append(m)
                        break
            if not full:
                return None
            for (cc, a, real, st, det) in self.evaluate(full):
                if st == "violation":
                    best.update({"case": cc, "ans": a, "real": real, "detail": det})
                    return cc
            return None
        (_, a, real, st, det) = self.evaluate([c])[0]
        best.update({"case": c, "ans": a, "real": real, "detail": det})
        try:
            shrink(c, still_fails)
        except Exception as ex:  # noqa: BLE001
            self.ctx.notes.append(f"shrinker failed: {ex}")
        return best

    def coverage(self):
        return {
            "evaluations": self.stats["evaluations"],
            "distinct_nontrivial": len(self.distinct),
            "outcomes": dict(self.stats),
            "kinds": dict(self.kind_hist),
            "depths": {str(k): v for k, v in sorted(self.depth_hist.items())},
            "shape_classes": dict(self.shape_hist),
            "dtype_pairs": {f"{k[0]}x{k[1]}": v for k, v in self.dtype_hist.items()},
            "samples": self.samples,
            "compare": "exact (Gaussian-integer payloads; cases whose magnitude bound leaves the exact range are counted as 'inexact' and not compared)",
        }


def nontrivial(c):
    e = c["op"]
    if gen.depth_of(e) < 1 and e[0] in ("eye", "scalar", "diag"):
        return False
    return True
