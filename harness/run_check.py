import argparse
import importlib
import os
import sys
import traceback

sys.path.insert(0, os.path.dirname(os.path.abspath(__file__)))
import common  # noqa: E402


def main():
    ap = argparse.ArgumentParser()
    ap.add_argument("prop")
    ap.add_argument("tier", nargs="?", default=os.environ.get("VERIF_TIER", "quick"))
    ap.add_argument("--replay", default=None)
    args = ap.parse_args()
    seed = int(os.environ.get("VERIF_SEED", "0"))
    ctx = common.Ctx(args.prop.upper(), args.tier, seed, args.replay)
    mod = importlib.import_module("props." + args.prop.lower())
    try:
        mod.run(ctx)
    except SystemExit:
        raise
    except Exception:  # machinery failure, not a violation
        traceback.print_exc()
        sys.exit(2)
    common.finish(ctx)


if __name__ == "__main__":
    main()
