import argparse
import importlib
import os
import sys
import traceback

sys.path.insert(0, os.path.dirname(os.path.abspath(__file__)))
import common  # noqa: E402


def main():
    ap = argparse.ArgumentParser()
    ap.add_argument("prop")
    ap.add_argument("tier", nargs="?", default=os.environ.get("VERIF_TIER", "quick"))
    ap.add_argument("--replay", default=None)
    args = ap.parse_args()
    seed = int(os.environ.get("VERIF_SEED", "0"))
    ctx = common.Ctx(args.prop.upper(), args.tier, seed, args.replay)
    extras = []
    try:  # source fingerprints (DESIGN.md 2.3 (a)): which modelled functions changed since the models were written
        sys.path.insert(0, os.path.join(os.path.dirname(os.path.abspath(__file__)), "translators"))
        import fingerprint
        ctx.fingerprint = fingerprint.report(ctx.prop)
    except Exception as e:  # never fatal: the correspondence decides, not the hashes
        ctx.fingerprint = {"error": repr(e)[:300]}
    rel = ctx.fingerprint.get("relevant_to_property") or []
    if rel:
        print(f"NOTE: property={ctx.prop} source changed since the recorded fingerprints in {len(rel)} function(s) this property "
              f"depends on: {', '.join(rel[:6])}{' …' if len(rel) > 6 else ''} — not a violation by itself; sampling is escalated", flush=True)
        extras = common.start_escalation(ctx)
    mod = importlib.import_module("props." + args.prop.lower())
    try:
        try:
            mod.run(ctx)
        finally:
            common.join_escalation(ctx, extras)
    except SystemExit:
        raise
    except Exception:  # machinery failure, not a violation
        traceback.print_exc()
        sys.exit(2)
    common.finish(ctx)


if __name__ == "__main__":
    main()
