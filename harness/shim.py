"""NumPy backend shim (ours, not cola's): the only installed backend lacks vmap,
linear_transpose, sparse_csr and to_np; backend-agnostic cola code needs them.
Installed into cola.backends.np_fns at import time.  No change to /repo."""
import numpy as np
import optree
from scipy.sparse import csr_array
from cola.backends import np_fns


def to_np(a):
    return np.asarray(a)


def sparse_csr(indptr, indices, data, shape):
    return csr_array((data, indices, indptr), shape=shape)


def linear_transpose(fun, primals, duals):
    # fun is linear R^{d x k} -> R^{c x k}; returns J^T @ duals  (duals: c x k)
    d = primals.shape[0]
    dt = np.promote_types(primals.dtype, duals.dtype)
    M = fun(np.eye(d, dtype=dt))  # (c, d)
    return M.T @ duals


def vmap(fun, in_axes=0, out_axes=0):
    def f(*args):
        flat, tree = optree.tree_flatten(args, namespace='cola')
        n = flat[0].shape[0]
        outs = []
        for i in range(n):
            a = optree.tree_unflatten(tree, [x[i] for x in flat])
            outs.append(fun(*a))
        f0, t0 = optree.tree_flatten(outs[0], namespace='cola')
        allf = [optree.tree_flatten(o, namespace='cola')[0] for o in outs]
        st = [np.stack([af[j] for af in allf]) for j in range(len(f0))]
        return optree.tree_unflatten(t0, st)
    return f


def install():
    np_fns.to_np = to_np
    np_fns.sparse_csr = sparse_csr
    np_fns.linear_transpose = linear_transpose
    np_fns.vmap = vmap


install()
