"""Run the Lean driver on a batch of cases (JSON lines) and return its answers by id."""
import json
import os
import subprocess
import tempfile

TIMEOUTS = []   # ids of cases whose model evaluation hit the time limit (reported in the evidence)
LEAN_DIR = os.path.join(os.path.dirname(os.path.abspath(__file__)), "..", "lean")


def run_driver(cases, nproc=None, timeout=1200, driver="Driver.lean"):
    """cases: list of dicts with unique 'id'.  Splits across processes."""
    if not cases:
        return {}
    nproc = nproc or min(16, max(1, len(cases) // 20), os.cpu_count() or 1)
    chunks = [cases[i::nproc] for i in range(nproc)]
    procs = []
    for ch in chunks:
        f = tempfile.TemporaryFile(mode="w+")
        for c in ch:
            f.write(json.dumps(c) + "\n")
        f.seek(0)
        p = subprocess.Popen(["lake", "env", "lean", "--run", driver], cwd=LEAN_DIR, stdin=f,
                             stdout=subprocess.PIPE, stderr=subprocess.PIPE, text=True, start_new_session=True)
        procs.append((p, f))
    out = {}
    import time
    deadline = time.time() + timeout
    for p, f in procs:
        timed_out = False
        try:
            so, se = p.communicate(timeout=max(1.0, deadline - time.time()))
        except subprocess.TimeoutExpired:
            # a case too expensive for the interpreted model: keep what the process printed so far, mark the
            # rest of its chunk as driver-timeout (counted in the evidence, never a violation by itself)
            try:
                os.killpg(p.pid, 9)   # lake and the lean process it started
            except ProcessLookupError:
                pass
            so, se = p.communicate()
            timed_out = True
        f.close()
        if p.returncode not in (0, None) and not timed_out:
            raise RuntimeError(f"lean driver failed rc={p.returncode}: {se[-2000:]}")
        for line in so.splitlines():
            line = line.strip()
            if not line:
                continue
            try:
                a = json.loads(line)
            except ValueError:
                continue   # line cut by the kill
            out[a.get("id")] = a
    for c in cases:
        if c.get("id") not in out:
            out[c.get("id")] = {"id": c.get("id"), "error": "driver-timeout"}
            TIMEOUTS.append(c.get("id"))
    return out
