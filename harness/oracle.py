"""Run the Lean driver on a batch of cases (JSON lines) and return its answers by id."""
import json
import os
import subprocess
import tempfile

LEAN_DIR = os.path.join(os.path.dirname(os.path.abspath(__file__)), "..", "lean")


def run_driver(cases, nproc=None, timeout=3000, driver="Driver.lean"):
    """cases: list of dicts with unique 'id'.  Splits across processes."""
    if not cases:
        return {}
    nproc = nproc or min(16, max(1, len(cases) // 20), os.cpu_count() or 1)
    chunks = [cases[i::nproc] for i in range(nproc)]
    procs = []
    for ch in chunks:
        f = tempfile.TemporaryFile(mode="w+")
        for c in ch:
            f.write(json.dumps(c) + "\n")
        f.seek(0)
        p = subprocess.Popen(["lake", "env", "lean", "--run", driver], cwd=LEAN_DIR, stdin=f,
                             stdout=subprocess.PIPE, stderr=subprocess.PIPE, text=True)
        procs.append((p, f))
    out = {}
    for p, f in procs:
        so, se = p.communicate(timeout=timeout)
        f.close()
        if p.returncode != 0:
            raise RuntimeError(f"lean driver failed rc={p.returncode}: {se[-2000:]}")
        for line in so.splitlines():
            line = line.strip()
            if not line:
                continue
            a = json.loads(line)
            out[a.get("id")] = a
    return out
