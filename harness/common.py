"""Shared plumbing of the checks: Lean gate (build + axiom audit + source scan), evidence,
known findings, replay files, VIOLATION / KNOWN-FINDING lines."""
import fcntl
import glob
import json
import os
import re
import subprocess
import sys
import time

ROOT = os.path.abspath(os.path.join(os.path.dirname(os.path.abspath(__file__)), ".."))
LEAN_DIR = os.path.join(ROOT, "lean")
WORK = os.path.join(ROOT, "work")
REPLAYS = os.path.join(ROOT, "work", "replays")
EVIDENCE = os.path.join(ROOT, "evidence")
ALLOWED_AXIOMS = {"propext", "Classical.choice", "Quot.sound"}
FORBIDDEN = re.compile(r"\bsorry\b|\badmit\b|^\s*axiom\s|native_decide|bv_decide|implemented_by|\bunsafe\s|maxHeartbeats\s+0")

TRUSTED_BASE = [
    "Lean 4.33.0 kernel (thorough tier: leanchecker re-check of the compiled property module)",
    "axioms allowed: propext, Classical.choice, Quot.sound (audited by #print axioms on every run); no native_decide/bv_decide/sorry/own axioms",
    "Mathlib v4.33.0 definitions as the meaning of the specifications",
    "correspondence harness (harness/*.py), the NumPy backend shim harness/shim.py (vmap, linear_transpose, sparse_csr, to_np are ours, not cola's)",
    "models of numpy/scipy/CPython primitives in lean/ColaVerif/Model/Kernels.lean and Basic/PySlice.lean (reshape, moveaxis, np.kron, block_diag, concatenate, fancy-index assignment, CSR product, slice.indices), validated only by the differential streams",
    "exact real/complex arithmetic in the theorems; IEEE rounding is outside the model",
]


class Ctx:
    def __init__(self, prop, tier, seed, replay=None):
        self.prop = prop
        self.tier = tier
        self.seed = seed
        self.replay = replay
        self.t0 = time.time()
        self.violations = []   # (replay_path, suffix)
        self.known = []        # strings
        self.notes = []
        self.fingerprint = None
        os.makedirs(WORK, exist_ok=True)
        os.makedirs(REPLAYS, exist_ok=True)
        os.makedirs(EVIDENCE, exist_ok=True)

    @property
    def thorough(self):
        return self.tier == "thorough"

    def wall(self):
        return time.time() - self.t0


def sh(cmd, cwd=None, timeout=3600, env=None):
    p = subprocess.run(cmd, cwd=cwd, shell=isinstance(cmd, str), capture_output=True, text=True, timeout=timeout, env=env)
    return p.returncode, p.stdout, p.stderr


class LeanGateError(Exception):
    pass


def lake_build(targets=("ColaVerif",)):
    """build under an exclusive lock (several checks may run in parallel)"""
    lock = open(os.path.join(LEAN_DIR, ".build.lock"), "w")
    fcntl.flock(lock, fcntl.LOCK_EX)
    try:
        rc, so, se = sh(["lake", "build"] + list(targets), cwd=LEAN_DIR, timeout=3000)
    finally:
        fcntl.flock(lock, fcntl.LOCK_UN)
        lock.close()
    return rc, so + se


def scan_sources():
    """forbidden tokens outside comments in every Lean source of the project"""
    hits = []
    files = glob.glob(os.path.join(LEAN_DIR, "ColaVerif", "**", "*.lean"), recursive=True)
    files += glob.glob(os.path.join(LEAN_DIR, "Driver*.lean")) + [os.path.join(LEAN_DIR, "ColaVerif.lean")]
    for f in files:
        try:
            src = open(f).read()
        except FileNotFoundError:
            continue
        # strip block comments and line comments
        src2 = re.sub(r"/-.*?-/", lambda m: "\n" * m.group(0).count("\n"), src, flags=re.S)
        for n, line in enumerate(src2.split("\n"), 1):
            line = line.split("--")[0]
            if FORBIDDEN.search(line):
                hits.append(f"{os.path.relpath(f, ROOT)}:{n}: {line.strip()[:120]}")
    return hits


def _error_excerpt(out, limit=20000):
    """the error lines of a Lean / lake run (file:line:col: error … up to the next message), then the tail"""
    lines = out.split("\n")
    keep, on = [], False
    for ln in lines:
        if re.match(r"^(error:|\S+\.lean:\d+:\d+: error)", ln):
            on = True
        elif re.match(r"^(warning:|info:|\S+\.lean:\d+:\d+: (warning|info)|✔|ℹ|⚠|✖)", ln):
            on = ln.startswith("✖")
        if on:
            keep.append(ln)
    txt = "\n".join(keep)
    if len(txt) > limit:
        txt = txt[:limit] + "\n…"
    return txt + "\n--- tail ---\n" + out[-3000:]


def lean_gate(ctx, module):
    """Build the library, re-elaborate the property module and audit the axioms of every theorem
    it lists with `#print axioms`.  Returns dict(obligations, discharged, theorems, checker_cmd).
    Raises LeanGateError if the proofs no longer check (caller decides what that means)."""
    # only the property module and what it imports: a broken sibling module must not fail this check
    rc, out = lake_build([module])
    if rc != 0:
        raise LeanGateError("lake build failed:\n" + _error_excerpt(out))
    path = os.path.join("ColaVerif", *module.split(".")[1:]) + ".lean"
    rc, so, se = sh(["lake", "env", "lean", path], cwd=LEAN_DIR, timeout=3000)
    if rc != 0:
        raise LeanGateError(f"{path} does not elaborate:\n" + _error_excerpt(so + se))
    theorems = {}
    txt = so.replace("\n  ", " ")
    for m in re.finditer(r"'(\S+)' depends on axioms: \[([^\]]*)\]", txt):
        theorems[m.group(1)] = [a.strip() for a in m.group(2).split(",") if a.strip()]
    for m in re.finditer(r"'(\S+)' does not depend on any axioms", txt):
        theorems[m.group(1)] = []
    if not theorems:
        raise LeanGateError(f"{path}: no '#print axioms' output found")
    bad = {k: v for k, v in theorems.items() if not set(v) <= ALLOWED_AXIOMS}
    if bad:
        raise LeanGateError("theorems depending on axioms outside {propext, Classical.choice, Quot.sound}:\n" +
                            "\n".join(f"{k}: {v}" for k, v in sorted(bad.items())[:20]))
    hits = scan_sources()
    if hits:
        raise LeanGateError("forbidden tokens in Lean sources:\n" + "\n".join(hits[:20]))
    res = {
        "obligations": len(theorems),
        "discharged": len(theorems) - len(bad),
        "theorems": sorted(theorems),
        "bad_axioms": bad,
        "checker_cmd": f"cd lean && lake build {module} && lake env lean {path}   # kernel re-check + #print axioms audit",
    }
    if ctx.thorough:
        rc, so, se = sh(["lake", "env", "leanchecker", module], cwd=LEAN_DIR, timeout=3000)
        res["leanchecker_rc"] = rc
        res["checker_cmd"] += f" && lake env leanchecker {module}"
        if rc != 0:
            raise LeanGateError("leanchecker rejected the module:\n" + (so + se)[-2000:])
    return res


def load_known():
    p = os.path.join(ROOT, "known_findings.json")
    if not os.path.exists(p):
        return {"findings": [], "fixed": []}
    return json.load(open(p))


def known_clauses(prop):
    return {f["clause"]: f for f in load_known()["findings"] if f["property"] == prop}


def write_replay(ctx, payload):
    n = len(glob.glob(os.path.join(REPLAYS, f"{ctx.prop}-*.json")))
    path = os.path.join(REPLAYS, f"{ctx.prop}-{ctx.seed}-{n}.json")
    payload = dict(payload)
    payload.setdefault("property", ctx.prop)
    payload.setdefault("seed", ctx.seed)
    with open(path, "w") as f:
        json.dump(payload, f, indent=1)
    return path


def violation(ctx, payload, no_input=False):
    path = write_replay(ctx, payload)
    line = f"VIOLATION property={ctx.prop} replay={path}"
    if no_input:
        line += " no-failing-input-found"
    print(line, flush=True)
    ctx.violations.append(path)
    return path


def known_finding(ctx, clause, what):
    key = (clause, )
    if key in ctx.known:
        return
    ctx.known.append(key)
    print(f"KNOWN-FINDING: property={ctx.prop} {clause}: {what}", flush=True)


def _validate_evidence(ev):
    """cheap structural self-check mirroring /root/.vp/EVIDENCE.schema.json (types of the well-known keys)"""
    cov = ev["coverage"]
    for k in ("evaluations", "distinct_nontrivial", "obligations", "discharged", "states", "transitions", "programs"):
        if k in cov and not isinstance(cov[k], int):
            cov[k] = int(cov[k])
    if "exhaustive" in cov and not isinstance(cov["exhaustive"], bool):
        cov["exhaustive_detail"] = cov.pop("exhaustive")
    if "samples" in cov and not isinstance(cov["samples"], list):
        cov["samples"] = [cov["samples"]]
    if not cov.get("samples"):
        cov["samples"] = [{"note": "no sample recorded by this run"}]
    if "rule" in cov and not isinstance(cov["rule"], str):
        cov["rule"] = str(cov["rule"])
    if "explanation" in cov and not isinstance(cov["explanation"], str):
        cov["explanation"] = str(cov["explanation"])


def write_evidence(ctx, gate, coverage, assumptions=None):
    cov = dict(coverage)
    if gate:
        cov["obligations"] = gate["obligations"]
        cov["discharged"] = gate["discharged"]
        cov["checker_cmd"] = gate["checker_cmd"]
        cov["theorems"] = gate["theorems"]
    try:
        import oracle
        if oracle.TIMEOUTS:
            cov["model_timeouts"] = len(oracle.TIMEOUTS)
            cov["model_timeouts_note"] = ("cases whose evaluation by the interpreted Lean model hit the time limit; "
                                          "they are not compared and are not counted in evaluations")
    except ImportError:
        pass
    if getattr(ctx, "fingerprint", None) is not None:
        fp = dict(ctx.fingerprint)
        for k in ("changed", "removed", "added"):
            if k in fp and len(fp[k]) > 40:
                fp[k] = fp[k][:40] + [f"… (+{len(fp[k]) - 40})"]
        fp["note"] = ("normalised-AST hashes of every function of /repo/cola against harness/model_map.json; a change is not a "
                      "violation, it escalates sampling (extra seeds) for the properties that depend on the function")
        cov["source_fingerprint"] = fp
    cov["trusted_base"] = TRUSTED_BASE + list(cov.get("trusted_base_extra", []))
    cov.pop("trusted_base_extra", None)
    ev = {
        "property_id": ctx.prop,
        "tier": ctx.tier,
        "seed": ctx.seed,
        "level": "proof",
        "coverage": cov,
        "assumptions": assumptions or [],
        "wall_s": round(ctx.wall(), 2),
        "violations": len(ctx.violations),
    }
    _validate_evidence(ev)
    if ctx.replay or os.environ.get("VERIF_NO_EVIDENCE") == "1":
        # a replay run looks at one stored input, an escalation run is an extra sample of the same check: neither
        # overwrites the evidence of the full run
        return ev
    with open(os.path.join(EVIDENCE, f"{ctx.prop}.json"), "w") as f:
        json.dump(ev, f, indent=1, default=str)
    return ev


# properties whose checks regenerate shared Gen/*.lean files: their extra runs must not overlap with the main run
_SEQUENTIAL_ESCALATION = {"C04", "C17", "C18", "C19"}


_ESC_DIR = []


def _esc_dir():
    """outputs of the extra runs live outside work/ (some checks clean their work directory)"""
    if not _ESC_DIR:
        import tempfile
        _ESC_DIR.append(tempfile.mkdtemp(prefix="cola_verif_esc_"))
    return _ESC_DIR[0]


def start_escalation(ctx):
    """When a function this property depends on has changed (source fingerprint), the quick tier also runs the same check
    with two more seeds (the seeds validated on the unchanged tree are 0..3).  Extra runs write no evidence; their
    VIOLATION lines are passed through and counted.  Never on the unchanged tree, never for replays or thorough runs."""
    if ctx.replay or ctx.thorough or os.environ.get("VERIF_NO_ESCALATE") == "1":
        return []
    seeds = [(ctx.seed + 1) % 4, (ctx.seed + 2) % 4]
    env = dict(os.environ, VERIF_NO_ESCALATE="1", VERIF_NO_EVIDENCE="1")
    jobs = []
    for s in seeds:
        e = dict(env, VERIF_SEED=str(s))
        cmd = [sys.executable, os.path.join(ROOT, "harness", "run_check.py"), ctx.prop, "quick"]
        if ctx.prop in _SEQUENTIAL_ESCALATION:
            jobs.append(("deferred", s, cmd, e))
        else:
            out = open(os.path.join(_esc_dir(), f"escalation_{ctx.prop}_{s}.out"), "w")
            jobs.append(("running", s, subprocess.Popen(cmd, cwd=ROOT, env=e, stdout=out, stderr=subprocess.STDOUT), out))
    return jobs


def join_escalation(ctx, jobs):
    if not jobs:
        return
    summary = []
    for job in jobs:
        s = job[1]
        path = os.path.join(_esc_dir(), f"escalation_{ctx.prop}_{s}.out")
        try:
            if job[0] == "deferred":
                with open(path, "w") as out:
                    rc = subprocess.run(job[2], cwd=ROOT, env=job[3], stdout=out, stderr=subprocess.STDOUT, timeout=3000).returncode
            else:
                rc = job[2].wait(timeout=3000)
                job[3].close()
        except Exception as e:  # an extra sample that cannot run is not a verdict
            summary.append({"seed": s, "error": repr(e)[:200]})
            continue
        viol = 0
        try:
            lines = open(path, errors="replace").readlines()
        except OSError as e:  # the output of an extra sample is gone: not a verdict
            summary.append({"seed": s, "rc": rc, "error": repr(e)[:200]})
            continue
        for ln in lines:
            if ln.startswith("VIOLATION "):
                viol += 1
                print(ln.rstrip() + f"   [escalation seed {s}]", flush=True)
                m = re.search(r"replay=(\S+)", ln)
                ctx.violations.append(m.group(1) if m else path)
            elif ln.startswith("KNOWN-FINDING:"):
                m = re.match(r"KNOWN-FINDING: property=\S+ (\S+?):", ln)
                key = (m.group(1),) if m else (ln.strip(),)
                if key not in ctx.known:
                    ctx.known.append(key)
                    print(ln.rstrip(), flush=True)
        summary.append({"seed": s, "rc": rc, "violations": viol})
    try:
        import shutil
        shutil.rmtree(_esc_dir(), ignore_errors=True)
    except Exception:
        pass
    # the evidence of the main run is already written: append the escalation summary to it
    p = os.path.join(EVIDENCE, f"{ctx.prop}.json")
    try:
        ev = json.load(open(p))
        ev["coverage"].setdefault("source_fingerprint", {})["escalation_runs"] = summary
        ev["violations"] = len(ctx.violations)
        json.dump(ev, open(p, "w"), indent=1, default=str)
    except Exception:
        pass


def finish(ctx):
    if ctx.violations:
        sys.exit(1)
    sys.exit(0)


def canon(e):
    return json.dumps(e, sort_keys=True)
